/* Baseline (UNCHANGED tree) probe: stale 'parent' local in notify().

   Family:  P -> n.
     A: nsync_note_notify (n)
     B: nsync_note_notify (n)      (second notifier of the same note)
     C: nsync_note_free (P)        (after A has returned; nobody names P any more)

   Both notifiers miss the trylock on P (main briefly holds P->note_mu) and
   take the slow path of notify(): n->disconnecting++, parent = n->parent (= P),
   unlock n, lock parent, lock n.  B is delayed just before its
   nsync_mu_lock (&parent->note_mu) (pure scheduling: a --wrap of nsync_mu_lock
   that sleeps; no state is modified).  A completes: it notifies n and unlinks
   it from P (n->parent = NULL, P->children empty).  n->disconnecting is still
   non-zero on B's behalf, but P no longer has n in its child list, so
   nsync_note_free (P) sees no children, does not wait, and frees P.
   B then resumes and locks P->note_mu: use after free.

   Build with -fsanitize=address; ASan reports heap-use-after-free in
   nsync_mu_lock called from notify (internal/note.c:127).  */

#include "nsync_cpp.h"
#include "platform.h"
#include "compiler.h"
#include "cputype.h"
#include "nsync.h"
#include "dll.h"
#include "sem.h"
#include "wait_internal.h"
#include "common.h"
#include "atomic.h"

#include <pthread.h>
#include <stdio.h>
#include <unistd.h>

static nsync_note P, n;
static nsync_mu *volatile delay_mu;     /* lock whose acquisition by B is delayed */
static __thread int is_b;
static nsync_atomic_uint32_ b_at_parent_lock;

void __real_nsync_mu_lock (nsync_mu *mu);
void __wrap_nsync_mu_lock (nsync_mu *mu) {
	if (is_b && mu == delay_mu) {
		ATM_STORE_REL (&b_at_parent_lock, 1);
		usleep (1000 * 1000);           /* B descheduled here */
	}
	__real_nsync_mu_lock (mu);
}

static void *thread_a (void *v) {
	nsync_note_notify (n);
	return (v);
}
static void *thread_b (void *v) {
	is_b = 1;
	nsync_note_notify (n);
	return (v);
}
static void *thread_c (void *v) {
	nsync_note_free (P);
	return (v);
}

int main (void) {
	pthread_t a, b, c;
	int i;
	P = nsync_note_new (NULL, nsync_time_no_deadline);
	n = nsync_note_new (P, nsync_time_no_deadline);
	delay_mu = &P->note_mu;

	nsync_mu_lock (&P->note_mu);        /* short critical section on P ... */
	pthread_create (&a, NULL, &thread_a, NULL);
	usleep (100 * 1000);                /* A: slow path, queued on P */
	pthread_create (&b, NULL, &thread_b, NULL);
	for (i = 0; i != 2000 && !ATM_LOAD_ACQ (&b_at_parent_lock); i++) {
		usleep (1000);
	}
	if (!ATM_LOAD_ACQ (&b_at_parent_lock)) {
		/* On a repaired library B never releases n->note_mu to lock the
		   cached parent: it waits for A to mark n.  Carry on with the same
		   client operations; they must complete without touching freed memory. */
		printf ("B did not go for the parent's lock (repaired library)\n");
	}
	nsync_mu_unlock (&P->note_mu);      /* ... ends */

	pthread_join (a, NULL);             /* A done: n notified and unlinked */
	printf ("A done: n notified=%d n->parent=%p n->disconnecting=%u P->children=%p\n",
		(int) ATM_LOAD (&n->notified), (void *) n->parent,
		(unsigned) n->disconnecting, (void *) P->children);
	fflush (stdout);
	pthread_create (&c, NULL, &thread_c, NULL);
	pthread_join (c, NULL);             /* P freed; only B's stale local refers to it */
	printf ("C done: P freed\n");
	fflush (stdout);
	pthread_join (b, NULL);             /* B now locks freed P->note_mu */
	nsync_note_free (n);
	printf ("no use-after-free observed\n");
	return (0);
}

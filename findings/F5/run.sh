#!/bin/sh
# usage: sh run.sh <repo-root>    exit 0 = no UAF observed, non-zero = ASan report / crash
R=${1:?usage: run.sh <repo-root>}
D=$(cd "$(dirname "$0")" && pwd)
T=${TMPDIR:-/tmp}
OUT=$T/c09_baseline_uaf.$$
SRCS=$(ls "$R"/internal/*.c | grep -v sem_wait_no_note.c)
SRCS="$SRCS $R/platform/linux/src/nsync_semaphore_futex.c $R/platform/posix/src/per_thread_waiter.c $R/platform/posix/src/yield.c $R/platform/posix/src/time_rep.c $R/platform/posix/src/nsync_panic.c"
${CC:-clang-14} -O1 -g -fsanitize=address -fno-omit-frame-pointer \
    -I"$R/platform/linux" -I"$R/platform/gcc" -I"$R/platform/x86_64" -I"$R/platform/posix" \
    -I"$R/public" -I"$R/internal" -pthread -Wl,--wrap=nsync_mu_lock -o "$OUT" "$D/uaf.c" $SRCS || exit 2
timeout 60 "$OUT"
rc=$?
rm -f "$OUT"
exit $rc

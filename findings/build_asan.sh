#!/bin/sh
# usage: build_asan.sh <repo> <demo.c> <out>
R=$1; D=$2; O=$3
SRCS="$R/internal/common.c $R/internal/counter.c $R/internal/cv.c $R/internal/debug.c $R/internal/dll.c $R/internal/mu.c $R/internal/mu_wait.c $R/internal/note.c $R/internal/once.c $R/internal/sem_wait.c $R/internal/time_internal.c $R/internal/wait.c $R/platform/linux/src/nsync_semaphore_futex.c $R/platform/posix/src/per_thread_waiter.c $R/platform/posix/src/yield.c $R/platform/posix/src/time_rep.c $R/platform/posix/src/nsync_panic.c"
gcc -g -O1 ${SAN--fsanitize=address} -pthread -I$R/platform/linux -I$R/platform/gcc -I$R/platform/x86_64 -I$R/platform/posix -I$R/public -I$R/internal $D $SRCS -o $O

/* Demonstration for finding F3 (C15): a deadline before the epoch crashed
   (futex EINVAL -> ASSERT -> SIGSEGV).  After the fix: prints ETIMEDOUT results. */
#include "nsync.h"
#include <stdio.h>
#include <errno.h>
int main (void) {
	nsync_mu mu; nsync_cv cv; int r; nsync_counter c;
	nsync_mu_init (&mu); nsync_cv_init (&cv);
	nsync_mu_lock (&mu);
	r = nsync_cv_wait_with_deadline (&cv, &mu, nsync_time_s_ns (-1, 0), NULL);
	printf ("cv_wait(-1s) = %d (ETIMEDOUT=%d)\n", r, ETIMEDOUT);
	r = nsync_cv_wait_with_deadline (&cv, &mu, nsync_time_s_ns (-1000000, 999999999), NULL);
	printf ("cv_wait(-1e6s) = %d\n", r);
	nsync_mu_unlock (&mu);
	c = nsync_counter_new (1);
	printf ("counter_wait(-1s) = %u\n", nsync_counter_wait (c, nsync_time_s_ns (-1, 0)));
	return (r == ETIMEDOUT ? 0 : 1);
}

/* F6: does a release of an nsync_mu touch the mutex after another thread can
   acquire it?  Demonstration against the unmodified nsync sources.

   Usage:  demo <mode>
     mode "demo"      : cv has two native reader waiters AND one nsync_wait_n()
                        waiter; a third reader holds the mutex during
                        nsync_cv_broadcast().  Expected (if the defect is real):
                        MU_WAITING set with an empty queue; the last
                        nsync_mu_runlock() goes through nsync_mu_unlock_slow_()
                        and touches the mutex after T2 has locked, unlocked and
                        freed it.
     mode "ctl-nowaitn": identical, but there is no nsync_wait_n() waiter
                        (all_readers==1, MU_WAITING is not set).
     mode "ctl-queued" : identical to ctl-nowaitn, but a genuine writer W2 is
                        queued on the mutex (and holds a reference) when the
                        last reader unlocks: MU_WAITING is set legitimately,
                        the same window is opened and T2 does lock/unlock
                        inside it, but T2 is not the last user so nothing is
                        freed in the window.
     mode "ctl-waitn-queued": wait_n waiter present AND genuine writer queued.

   Exit status: 0 = no invalid access; non-zero = ASan report (default ASan
   exit code 1) or SIGSEGV on the protected page (exit 42); 99 = harness timeout;
   98 = harness precondition not met.

   Client legality: the object {mu, cv, cond, refs} is reference counted.
   Every thread that uses the object owns one reference.  A thread drops its
   reference with an atomic decrement that happens BEFORE its final unlock
   (or, for threads that use only the cv, after their cv call has returned);
   after that its only remaining use of the object is the unlock call in
   progress.  T2 takes the mutex in WRITE mode, and frees the object only if
   it sees, under that exclusive lock, that it owns the only remaining
   reference; it frees only after its own nsync_mu_unlock() has returned.

   Steering is done only by delaying calls: harness semaphores order the
   client calls, and -Wl,--wrap=nsync_dll_is_empty_ inserts a pause (arguments
   and result untouched) into the first nsync_dll_is_empty_() call made by the
   last unlocker inside its final nsync_mu_runlock().  */

#define _GNU_SOURCE
#include "nsync_cpp.h"
#include "platform.h"
#include "compiler.h"
#include "cputype.h"
#include "nsync.h"
#include "dll.h"
#include "sem.h"
#include "wait_internal.h"
#include "common.h"
#include "atomic.h"

#include <pthread.h>
#include <semaphore.h>
#include <signal.h>
#include <stdio.h>
#include <stdlib.h>
#include <string.h>
#include <unistd.h>
#include <sys/mman.h>
#include <stdatomic.h>

#ifdef __has_feature
#if __has_feature(address_sanitizer)
const char *__asan_default_options (void) { return "detect_leaks=0"; }
#endif
#endif

struct obj {
	nsync_mu mu;
	nsync_cv cv;
	int cond;           /* protected by mu */
	atomic_int refs;    /* reference count */
};

static struct obj *volatile the_obj;   /* each thread copies this while it owns a reference */
static void *obj_page;                 /* USE_MMAP: page that holds the object */
static size_t obj_page_len;

static int with_waitn;    /* an nsync_wait_n() waiter is on the cv */
static int with_queued;   /* a genuine writer is queued on mu when the last reader unlocks */

/* mutex used only by the nsync_wait_n() caller; static, never freed */
static nsync_mu mu2;

/* harness semaphores */
static sem_t s_r_in[2];      /* Ri holds the read lock and is about to cv_wait */
static sem_t s_n_in;         /* N holds mu2 and is about to call nsync_wait_n */
static sem_t s_h_go, s_h_locked, s_h_release, s_h_done;
static sem_t s_r_back[2];    /* Ri returned from nsync_cv_wait */
static sem_t s_r_release[2], s_r_done[2];
static sem_t s_n_done;
static sem_t s_w2_go, s_w2_done;
static sem_t s_window;       /* unlocker is between its two CASes (or has finished) */
static sem_t s_resume;       /* unlocker may proceed */

static __thread int tl_armed;    /* this thread is inside its final, steered, runlock */
static __thread int tl_fired;
static atomic_int window_opened; /* the wrap fired */
static atomic_int freed_in_window;

static uint32_t peek_word (struct obj *o) { return (ATM_LOAD (&o->mu.word)); }

static const char *bits (uint32_t w, char *buf) {
	sprintf (buf, "0x%03x [readers=%u%s%s%s%s%s%s%s%s]", (unsigned) w,
		 (unsigned) (w >> 8),
		 (w & MU_WLOCK) ? " WLOCK" : "",
		 (w & MU_SPINLOCK) ? " SPINLOCK" : "",
		 (w & MU_WAITING) ? " WAITING" : "",
		 (w & MU_DESIG_WAKER) ? " DESIG_WAKER" : "",
		 (w & MU_CONDITION) ? " CONDITION" : "",
		 (w & MU_WRITER_WAITING) ? " WRITER_WAITING" : "",
		 (w & MU_LONG_WAIT) ? " LONG_WAIT" : "",
		 (w & MU_ALL_FALSE) ? " ALL_FALSE" : "");
	return (buf);
}

/* --- object allocation --------------------------------------------------- */
static struct obj *obj_alloc (void) {
	struct obj *o;
#ifdef USE_MMAP
	obj_page_len = (size_t) sysconf (_SC_PAGESIZE);
	obj_page = mmap (NULL, obj_page_len, PROT_READ | PROT_WRITE,
			 MAP_PRIVATE | MAP_ANONYMOUS, -1, 0);
	if (obj_page == MAP_FAILED) { perror ("mmap"); exit (98); }
	o = (struct obj *) obj_page;
#else
	o = (struct obj *) malloc (sizeof (*o));
#endif
	memset (o, 0, sizeof (*o));
	nsync_mu_init (&o->mu);
	nsync_cv_init (&o->cv);
	return (o);
}
static void obj_free (struct obj *o) {
#ifdef USE_MMAP
	(void) o;
	if (mprotect (obj_page, obj_page_len, PROT_NONE) != 0) { perror ("mprotect"); exit (98); }
#else
	free (o);
#endif
}

static void on_segv (int sig, siginfo_t *si, void *ctx) {
	char buf[200];
	int n;
	(void) sig; (void) ctx;
	n = snprintf (buf, sizeof (buf),
		      "SIGSEGV: access to address %p; freed object page is %p..%p => %s\n",
		      si->si_addr, obj_page, (void *) ((char *) obj_page + obj_page_len),
		      ((char *) si->si_addr >= (char *) obj_page &&
		       (char *) si->si_addr < (char *) obj_page + obj_page_len) ?
		      "USE OF FREED nsync_mu" : "unrelated fault");
	if (write (2, buf, (size_t) n) < 0) { }
	_exit (42);
}
static void on_alarm (int sig) {
	static const char m[] = "HARNESS TIMEOUT\n";
	(void) sig;
	if (write (2, m, sizeof (m) - 1) < 0) { }
	_exit (99);
}

/* --- the steering wrap ---------------------------------------------------- */
int __real_nsync_dll_is_empty_ (nsync_dll_list_ list);
int __wrap_nsync_dll_is_empty_ (nsync_dll_list_ list) {
	int r = __real_nsync_dll_is_empty_ (list);
	if (tl_armed && !tl_fired) {
		/* First nsync_dll_is_empty_() call inside the final
		   nsync_mu_runlock() of the last reader: this is mu.c line 331,
		   just after the CAS on line 300-301 that gave up the read lock
		   and took the spinlock.  Merely pause here. */
		tl_fired = 1;
		atomic_store (&window_opened, 1);
		sem_post (&s_window);
		sem_wait (&s_resume);
	}
	return (r);
}

/* --- client threads ------------------------------------------------------- */
static void *reader_waiter (void *v) {          /* R1, R2 */
	int i = (int) (long) v;
	struct obj *o = the_obj;
	nsync_mu_rlock (&o->mu);
	sem_post (&s_r_in[i]);
	while (!o->cond) {
		nsync_cv_wait (&o->cv, &o->mu);
	}
	sem_post (&s_r_back[i]);
	sem_wait (&s_r_release[i]);
	/* Drop the reference, then the final unlock: no use of *o afterwards. */
	atomic_fetch_sub (&o->refs, 1);
	if (i == 1) {
		tl_armed = 1;
	}
	nsync_mu_runlock (&o->mu);
	tl_armed = 0;
	if (i == 1 && !tl_fired) {
		/* slow path not taken: release T2 now */
		sem_post (&s_window);
	}
	sem_post (&s_r_done[i]);
	return (NULL);
}

static void *holder (void *v) {                 /* H */
	struct obj *o = the_obj;
	(void) v;
	sem_wait (&s_h_go);
	nsync_mu_rlock (&o->mu);
	sem_post (&s_h_locked);
	sem_wait (&s_h_release);
	atomic_fetch_sub (&o->refs, 1);
	nsync_mu_runlock (&o->mu);
	sem_post (&s_h_done);
	return (NULL);
}

static void lock2 (void *m) { nsync_mu_lock ((nsync_mu *) m); }
static void unlock2 (void *m) { nsync_mu_unlock ((nsync_mu *) m); }

static void *waitn_waiter (void *v) {           /* N */
	struct obj *o = the_obj;
	struct nsync_waitable_s wa;
	struct nsync_waitable_s *pwa[1];
	int r;
	(void) v;
	wa.v = &o->cv;
	wa.funcs = &nsync_cv_waitable_funcs;
	pwa[0] = &wa;
	nsync_mu_lock (&mu2);
	sem_post (&s_n_in);
	r = nsync_wait_n (&mu2, &lock2, &unlock2, nsync_time_no_deadline, 1, pwa);
	nsync_mu_unlock (&mu2);
	/* nsync_wait_n has returned, so the cv is no longer used by this thread. */
	atomic_fetch_sub (&o->refs, 1);
	printf ("  N: nsync_wait_n returned %d\n", r);
	sem_post (&s_n_done);
	return (NULL);
}

static void *queued_writer (void *v) {          /* W2 (controls only) */
	struct obj *o = the_obj;
	(void) v;
	sem_wait (&s_w2_go);
	nsync_mu_lock (&o->mu);                 /* blocks: readers hold it */
	atomic_fetch_sub (&o->refs, 1);
	nsync_mu_unlock (&o->mu);
	sem_post (&s_w2_done);
	return (NULL);
}

static void *freer (void *v) {                  /* T2 */
	struct obj *o = the_obj;
	char b[160];
	int first = 1;
	(void) v;
	sem_wait (&s_window);   /* harness: delay T2's first nsync_mu_lock() until now */
	for (;;) {
		int last;
		if (first) {
			printf ("  T2: mu.word before nsync_mu_lock = %s, mu.waiters=%p, window_opened=%d\n",
				bits (peek_word (o), b), (void *) o->mu.waiters,
				atomic_load (&window_opened));
		}
		nsync_mu_lock (&o->mu);
		last = (atomic_load (&o->refs) == 1);   /* only my reference remains */
		if (last) {
			atomic_store (&o->refs, 0);
		}
		nsync_mu_unlock (&o->mu);
		if (last) {
			/* I learned under the exclusive lock that I am the
			   last user, and my unlock has returned.  */
			if (first && atomic_load (&window_opened)) {
				atomic_store (&freed_in_window, 1);
			}
			obj_free (o);
			printf ("  T2: last user: object %s%s\n",
#ifdef USE_MMAP
				"mprotect(PROT_NONE)ed",
#else
				"free()d",
#endif
				first && atomic_load (&window_opened) ?
				" while the unlocker is between its two CASes" : "");
			fflush (stdout);
			if (first) {
				sem_post (&s_resume);
			}
			return (NULL);
		}
		if (first) {
			printf ("  T2: locked+unlocked inside the window, refs=%d, not last user: nothing freed\n",
				atomic_load (&o->refs));
			fflush (stdout);
			first = 0;
			sem_post (&s_resume);
		}
		usleep (1000);
	}
}

int main (int argc, char **argv) {
	pthread_t tr[2], th, tn, tw2, tf;
	struct obj *o;
	struct sigaction sa;
	char b[160];
	uint32_t w;
	int i;
	int spurious;
	const char *mode = argc > 1 ? argv[1] : "demo";

	if (strcmp (mode, "demo") == 0) { with_waitn = 1; with_queued = 0; }
	else if (strcmp (mode, "ctl-nowaitn") == 0) { with_waitn = 0; with_queued = 0; }
	else if (strcmp (mode, "ctl-queued") == 0) { with_waitn = 0; with_queued = 1; }
	else if (strcmp (mode, "ctl-waitn-queued") == 0) { with_waitn = 1; with_queued = 1; }
	else { fprintf (stderr, "bad mode\n"); return (98); }
	setvbuf (stdout, NULL, _IOLBF, 0);
	printf ("== mode %s (wait_n waiter: %d, genuine queued writer: %d)\n",
		mode, with_waitn, with_queued);

	memset (&sa, 0, sizeof (sa));
	sa.sa_sigaction = on_segv;
	sa.sa_flags = SA_SIGINFO;
#ifdef USE_MMAP
	sigaction (SIGSEGV, &sa, NULL);
#endif
	signal (SIGALRM, on_alarm);
	alarm (20);

	sem_init (&s_n_in, 0, 0); sem_init (&s_h_go, 0, 0); sem_init (&s_h_locked, 0, 0);
	sem_init (&s_h_release, 0, 0); sem_init (&s_h_done, 0, 0); sem_init (&s_n_done, 0, 0);
	sem_init (&s_w2_go, 0, 0); sem_init (&s_w2_done, 0, 0);
	sem_init (&s_window, 0, 0); sem_init (&s_resume, 0, 0);
	for (i = 0; i != 2; i++) {
		sem_init (&s_r_in[i], 0, 0); sem_init (&s_r_back[i], 0, 0);
		sem_init (&s_r_release[i], 0, 0); sem_init (&s_r_done[i], 0, 0);
	}
	nsync_mu_init (&mu2);

	o = obj_alloc ();
	/* references: main, R1, R2, H, T2 (+N) (+W2) */
	atomic_store (&o->refs, 5 + with_waitn + with_queued);
	the_obj = o;

	pthread_create (&tr[0], NULL, reader_waiter, (void *) 0L);
	pthread_create (&tr[1], NULL, reader_waiter, (void *) 1L);
	pthread_create (&th, NULL, holder, NULL);
	pthread_create (&tf, NULL, freer, NULL);
	if (with_waitn) { pthread_create (&tn, NULL, waitn_waiter, NULL); }
	if (with_queued) { pthread_create (&tw2, NULL, queued_writer, NULL); }

	/* 1. R1 and R2 are on the cv queue: each posted while holding a read
	      lock; nsync_cv_wait releases the lock only after enqueueing, and we
	      obtain the WRITE lock below.  Same argument for N with mu2.  */
	sem_wait (&s_r_in[0]); sem_wait (&s_r_in[1]);
	if (with_waitn) {
		sem_wait (&s_n_in);
		nsync_mu_lock (&mu2);
		nsync_mu_unlock (&mu2);
	}
	nsync_mu_lock (&o->mu);
	o->cond = 1;            /* make the readers' condition true */
	nsync_mu_unlock (&o->mu);
	printf ("  main: after setting cond under write lock: mu.word = %s\n",
		bits (peek_word (o), b));

	/* 2. H takes a read lock and keeps it across the broadcast. */
	sem_post (&s_h_go); sem_wait (&s_h_locked);
	printf ("  main: H holds read lock:                   mu.word = %s mu.waiters=%p\n",
		bits (peek_word (o), b), (void *) o->mu.waiters);

	/* 3. broadcast. */
	nsync_cv_broadcast (&o->cv);
	sem_wait (&s_r_back[0]); sem_wait (&s_r_back[1]);
	if (with_waitn) { sem_wait (&s_n_done); }
	w = peek_word (o);
	spurious = ((w & MU_WAITING) != 0 && (w & MU_SPINLOCK) == 0 && o->mu.waiters == NULL);
	printf ("  main: after broadcast, R1,R2 re-acquired:  mu.word = %s mu.waiters=%p%s\n",
		bits (w, b), (void *) o->mu.waiters,
		spurious ? "   <== MU_WAITING SET BUT QUEUE EMPTY" : "");

	if (with_queued) {
		/* a genuine waiter: W2 blocks in nsync_mu_lock() */
		sem_post (&s_w2_go);
		while (((w = peek_word (o)) & (MU_WRITER_WAITING | MU_SPINLOCK)) != MU_WRITER_WAITING ||
		       o->mu.waiters == NULL) {
			usleep (1000);
		}
		printf ("  main: W2 queued on mu:                     mu.word = %s mu.waiters=%p\n",
			bits (w, b), (void *) o->mu.waiters);
	}

	/* main is done with the object */
	atomic_fetch_sub (&o->refs, 1);
	o = NULL;

	/* 4. the readers release: H, R1, then R2 (the last, steered) */
	sem_post (&s_h_release); sem_wait (&s_h_done);
	sem_post (&s_r_release[0]); sem_wait (&s_r_done[0]);
	sem_post (&s_r_release[1]); sem_wait (&s_r_done[1]);
	printf ("  main: last reader's nsync_mu_runlock() returned (window opened: %d, freed in window: %d)\n",
		atomic_load (&window_opened), atomic_load (&freed_in_window));

	pthread_join (tr[0], NULL); pthread_join (tr[1], NULL); pthread_join (th, NULL);
	if (with_waitn) { pthread_join (tn, NULL); }
	if (with_queued) { sem_wait (&s_w2_done); pthread_join (tw2, NULL); }
	pthread_join (tf, NULL);
	printf ("  main: all threads joined; NO INVALID ACCESS in mode %s\n", mode);
	return (0);
}

#!/bin/sh
# usage: sh run.sh <nsync-repo-root> [runs]
# Builds demo.c against the SOURCES of <repo-root> (nothing in the library is
# modified) and runs the demo and the controls.
# Two builds: (a) clang-14 + AddressSanitizer, object in malloc'ed memory;
#             (b) gcc, no sanitizer, object in its own mmap'ed page that is
#                 mprotect(PROT_NONE)'ed on "free" (SIGSEGV handler => exit 42).
ROOT=${1:?usage: sh run.sh <repo-root> [runs]}
RUNS=${2:-5}
ROOT=$(cd "$ROOT" && pwd)
HERE=$(cd "$(dirname "$0")" && pwd)
B=${TMPDIR:-/tmp}/f6-build.$$
mkdir -p "$B" || exit 2
trap 'rm -rf "$B"' EXIT

SRCS=""
for f in "$ROOT"/internal/*.c; do
	case "$f" in */sem_wait_no_note.c) ;; *) SRCS="$SRCS $f";; esac
done
SRCS="$SRCS $ROOT/platform/linux/src/nsync_semaphore_futex.c"
for f in per_thread_waiter yield time_rep nsync_panic; do
	SRCS="$SRCS $ROOT/platform/posix/src/$f.c"
done
INC="-I$ROOT/platform/linux -I$ROOT/platform/gcc -I$ROOT/platform/x86_64 -I$ROOT/platform/posix -I$ROOT/public -I$ROOT/internal"
WRAP="-Wl,--wrap=nsync_dll_is_empty_"

have_asan=0
if command -v clang-14 >/dev/null 2>&1; then
	if clang-14 -g -O1 -fno-omit-frame-pointer -fsanitize=address -D_POSIX_C_SOURCE=200809L \
		$INC -pthread $WRAP -o "$B/demo_asan" "$HERE/demo.c" $SRCS 2>"$B/asan.log"; then
		have_asan=1
	else
		echo "clang-14 ASan build failed:"; cat "$B/asan.log"
	fi
fi
if ! gcc -g -O1 -DUSE_MMAP -D_POSIX_C_SOURCE=200809L $INC -pthread $WRAP \
	-o "$B/demo_mmap" "$HERE/demo.c" $SRCS 2>"$B/gcc.log"; then
	echo "gcc build failed:"; cat "$B/gcc.log"; exit 2
fi

demo_bad=0; demo_total=0; ctl_bad=0; ctl_total=0; spurious=0; harness_err=0
run_one () {  # $1 = binary, $2 = mode
	"$1" "$2" >"$B/out.txt" 2>"$B/err.txt"
	rc=$?
	cat "$B/out.txt"
	# keep the ASan report short
	grep -E "ERROR: AddressSanitizer|^(READ|WRITE) of size|^    #[0-4] |freed by thread|previously allocated|SIGSEGV|HARNESS|panic" "$B/err.txt" | head -24
	echo "  -> exit code $rc"
	if [ "$2" = demo ] && grep -q "MU_WAITING SET BUT QUEUE EMPTY" "$B/out.txt"; then spurious=$((spurious+1)); fi
	if [ $rc -eq 98 ] || [ $rc -eq 99 ]; then harness_err=$((harness_err+1)); fi
	return $rc
}

for bin in demo_asan demo_mmap; do
	[ $bin = demo_asan ] && [ $have_asan -eq 0 ] && continue
	echo "################ build: $bin"
	i=1
	while [ $i -le "$RUNS" ]; do
		echo "---- run $i"
		run_one "$B/$bin" demo; [ $? -ne 0 ] && demo_bad=$((demo_bad+1)); demo_total=$((demo_total+1))
		for m in ctl-nowaitn ctl-queued ctl-waitn-queued; do
			run_one "$B/$bin" $m; [ $? -ne 0 ] && ctl_bad=$((ctl_bad+1)); ctl_total=$((ctl_total+1))
		done
		i=$((i+1))
	done
done

echo "================================================================"
echo "demo runs with invalid access: $demo_bad / $demo_total   (demo runs that printed 'MU_WAITING SET BUT QUEUE EMPTY': $spurious)"
echo "control runs with invalid access: $ctl_bad / $ctl_total   (harness errors: $harness_err)"
if [ $harness_err -ne 0 ]; then
	echo "VERDICT: INCONCLUSIVE (harness error)"; exit 3
elif [ $demo_bad -eq $demo_total ] && [ $ctl_bad -eq 0 ]; then
	echo "VERDICT: REPRODUCED - nsync_mu_unlock_slow_() accesses the mutex after another thread acquired, released and freed it (spurious MU_WAITING left by wake_waiters); controls clean"
	exit 1
elif [ $demo_bad -eq 0 ] && [ $ctl_bad -eq 0 ]; then
	echo "VERDICT: NOT REPRODUCED - no invalid access in demo or controls"
	exit 0
else
	echo "VERDICT: MIXED - demo $demo_bad/$demo_total, controls $ctl_bad/$ctl_total; inspect the output"
	exit 2
fi

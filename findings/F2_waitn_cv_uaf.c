/* Demonstration for finding F2 (C13/C04/C11): nsync_cv_signal/broadcast woke an
   nsync_wait_n() caller's on-stack/heap waiter record after dropping the cv
   spinlock; the caller could time out, dequeue and discard the record first.
   Build with ASan against the library sources (see README in this directory).
   Before the fix: heap-use-after-free / stack-use-after-return in wake_waiters.
   After the fix: runs clean. */
#include "nsync.h"
#include <pthread.h>
#include <stdio.h>
#include <stdlib.h>

static nsync_mu mu;
static nsync_cv cv;
static nsync_note notes[5];
static volatile int stop;

static void *waiter_thread (void *arg) {
	int heap = (int) (long) arg;
	long n = 0;
	while (!stop) {
		struct nsync_waitable_s w[6];
		struct nsync_waitable_s *pw[6];
		int i, cnt = heap ? 6 : 3;
		for (i = 0; i != cnt - 1; i++) {
			w[i].v = notes[i];
			w[i].funcs = &nsync_note_waitable_funcs;
			pw[i] = &w[i];
		}
		w[cnt-1].v = &cv;
		w[cnt-1].funcs = &nsync_cv_waitable_funcs;
		pw[cnt-1] = &w[cnt-1];
		nsync_mu_lock (&mu);
		nsync_wait_n (&mu, (void (*) (void *)) &nsync_mu_lock,
			      (void (*) (void *)) &nsync_mu_unlock,
			      nsync_time_add (nsync_time_now (), nsync_time_us (n % 50)),
			      cnt, pw);
		nsync_mu_unlock (&mu);
		n++;
	}
	return (void *) n;
}

static void *signaller (void *arg) {
	int bc = (int) (long) arg;
	while (!stop) {
		if (bc) nsync_cv_broadcast (&cv); else nsync_cv_signal (&cv);
	}
	return NULL;
}

int main (int argc, char **argv) {
	pthread_t t[10];
	int i;
	long total = 0;
	int secs = argc > 1 ? atoi (argv[1]) : 5;
	for (i = 0; i != 5; i++) notes[i] = nsync_note_new (NULL, nsync_time_no_deadline);
	for (i = 0; i != 8; i++) pthread_create (&t[i], NULL, waiter_thread, (void *) (long) (i & 1));
	pthread_create (&t[8], NULL, signaller, (void *) 0L);
	pthread_create (&t[9], NULL, signaller, (void *) 1L);
	nsync_time_sleep (nsync_time_ms (1000 * secs));
	stop = 1;
	for (i = 0; i != 10; i++) { void *r; pthread_join (t[i], &r); if (i < 8) total += (long) r; }
	printf ("ok waits=%ld\n", total);
	return 0;
}

#!/bin/sh
# usage: build.sh <root> <src.c> <out> [extra flags]
R=$1; S=$2; O=$3; shift 3
SRCS=""
for f in $R/internal/*.c; do case $f in */sem_wait_no_note.c) ;; *) SRCS="$SRCS $f";; esac; done
SRCS="$SRCS $R/platform/linux/src/nsync_semaphore_futex.c $R/platform/posix/src/per_thread_waiter.c $R/platform/posix/src/yield.c $R/platform/posix/src/time_rep.c $R/platform/posix/src/nsync_panic.c"
${CC:-gcc} -O1 -g "$@" -I$R/platform/linux -I$R/platform/gcc -I$R/platform/x86_64 -I$R/platform/posix -I$R/public -I$R/internal -pthread -o $O $S $SRCS

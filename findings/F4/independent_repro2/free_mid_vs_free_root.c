#include "nsync_cpp.h"
#include "platform.h"
#include "compiler.h"
#include "cputype.h"
#include "nsync.h"
#include "dll.h"
#include "sem.h"
#include "wait_internal.h"
#include "common.h"
#include "atomic.h"
#include <pthread.h>
#include <stdio.h>
#include <unistd.h>
static nsync_note root, mid, leaf;
static volatile int done_a, done_b;
static void *t_a(void *a){ nsync_note_free(root); done_a=1; return 0; }
static void *t_b(void *a){ nsync_note_free(mid); done_b=1; return 0; }
int main(void){
  pthread_t a,b;
  root = nsync_note_new(NULL, nsync_time_no_deadline);
  mid = nsync_note_new(root, nsync_time_no_deadline);
  leaf = nsync_note_new(mid, nsync_time_no_deadline);
  nsync_mu_lock(&mid->note_mu);
  pthread_create(&b,0,t_b,0);
  usleep(100000);
  pthread_create(&a,0,t_a,0);
  usleep(100000);
  nsync_mu_unlock(&mid->note_mu);
  sleep(1);
  printf("free(root) done=%d free(mid) done=%d\n", done_a, done_b);
  return 0;
}

#include "nsync_cpp.h"
#include "platform.h"
#include "compiler.h"
#include "cputype.h"
#include "nsync.h"
#include "dll.h"
#include "sem.h"
#include "wait_internal.h"
#include "common.h"
#include "atomic.h"
#include <pthread.h>
#include <stdio.h>
#include <unistd.h>
static nsync_note root, mid, leaf;
static volatile int done_notify, done_free;
static void *t_notify(void *a){ nsync_note_notify(root); done_notify=1; return 0; }
static void *t_free(void *a){ nsync_note_free(mid); done_free=1; return 0; }
int main(void){
  pthread_t a,b;
  root = nsync_note_new(NULL, nsync_time_no_deadline);
  mid = nsync_note_new(root, nsync_time_no_deadline);
  leaf = nsync_note_new(mid, nsync_time_no_deadline);
  /* hold root lock so both block */
  nsync_mu_lock(&mid->note_mu);  /* stall notify(root) at child mid, while it holds root */
  pthread_create(&b,0,t_free,0);
  usleep(100000);
  pthread_create(&a,0,t_notify,0);
  usleep(100000);
  nsync_mu_unlock(&mid->note_mu);
  sleep(1);
  printf("done_notify=%d done_free=%d leaf notified=%d\n", done_notify, done_free, nsync_note_is_notified(leaf));
  return 0;
}

#include "nsync.h"
#include <pthread.h>
#include <stdio.h>
#include <stdlib.h>
#include <unistd.h>
#define NK 20000
static nsync_note p, n, c;
static volatile int go;
static void *t_notify(void *a){ while(!go); nsync_note_notify(p); return 0; }
static void *t_free(void *a){ while(!go); usleep(200); nsync_note_free(n); return 0; }
static void *wd(void*a){ sleep(10); fprintf(stderr,"HANG\n"); _exit(3);} 
int main(void){
 pthread_t a,b,w; int i; static nsync_note k[NK];
 pthread_create(&w,0,wd,0);
 p = nsync_note_new(NULL, nsync_time_no_deadline);
 for(i=0;i<NK;i++) k[i]=nsync_note_new(p,nsync_time_no_deadline);
 n = nsync_note_new(p, nsync_time_no_deadline);
 c = nsync_note_new(n, nsync_time_no_deadline);
 pthread_create(&a,0,t_notify,0); pthread_create(&b,0,t_free,0);
 go=1;
 pthread_join(b,0);
 fprintf(stderr,"free done; c notified=%d\n", nsync_note_is_notified(c));
 pthread_join(a,0);
 fprintf(stderr,"notify done; c notified=%d\n", nsync_note_is_notified(c));
 return 0; }

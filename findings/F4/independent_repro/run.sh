#!/bin/sh
# usage: sh run.sh <repo-root>   builds and runs both probes; exit 0 = neither hung
R=${1:?usage: run.sh <repo-root>}
D=$(cd "$(dirname "$0")" && pwd)
T=${TMPDIR:-/tmp}
rc=0
for p in notify_vs_free free_vs_free; do
	sh "$D/build.sh" "$R" "$D/$p.c" "$T/c09_$p.$$" || exit 2
	echo "== $p"; timeout 60 "$T/c09_$p.$$" || rc=1
	rm -f "$T/c09_$p.$$"
done
exit $rc

/* probe free||free */
#include "nsync_cpp.h"
#include "platform.h"
#include "compiler.h"
#include "cputype.h"
#include "nsync.h"
#include "dll.h"
#include "sem.h"
#include "wait_internal.h"
#include "common.h"
#include "atomic.h"
#include <pthread.h>
#include <stdio.h>
#include <unistd.h>
static nsync_note G, X, P, c;
static volatile int a_done, b_done;
static void *ta(void *v){ nsync_note_free(G); a_done=1; return 0;}
static void *tb(void *v){ nsync_note_free(P); b_done=1; return 0;}
int main(){
  pthread_t a,b;
  G = nsync_note_new(NULL, nsync_time_no_deadline);
  X = nsync_note_new(G, nsync_time_no_deadline);
  P = nsync_note_new(G, nsync_time_no_deadline);
  c = nsync_note_new(P, nsync_time_no_deadline);
  nsync_mu_lock(&X->note_mu);
  pthread_create(&a,0,ta,0); usleep(100000);
  pthread_create(&b,0,tb,0); usleep(100000);
  nsync_mu_unlock(&X->note_mu);
  sleep(2);
  printf("a_done=%d b_done=%d c notified=%d\n", a_done, b_done, (int)ATM_LOAD(&c->notified));
  return !(a_done&&b_done);
}

#!/bin/sh
# usage: build.sh <root> <src.c> <out> [extra flags]
R=$1; SRC=$2; OUT=$3; shift 3
SRCS=$(ls $R/internal/*.c | grep -v sem_wait_no_note.c)
SRCS="$SRCS $R/platform/linux/src/nsync_semaphore_futex.c $R/platform/posix/src/per_thread_waiter.c $R/platform/posix/src/yield.c $R/platform/posix/src/time_rep.c $R/platform/posix/src/nsync_panic.c"
gcc -O1 -g "$@" -I$R/platform/linux -I$R/platform/gcc -I$R/platform/x86_64 -I$R/platform/posix -I$R/public -I$R/internal -pthread -o $OUT $SRC $SRCS

#!/bin/sh
# Build and run the two demonstrations on the UNCHANGED library sources.
# Usage: R=/path/to/nsync B=/path/to/builddir RUNS=10 sh run.sh
R=${R:-/tmp/wt/F4}
B=${B:-/tmp/wt/F4-build}
RUNS=${RUNS:-10}
WD=${WD:-3}          # watchdog seconds
mkdir -p "$B" || exit 1
LIB="$(ls $R/internal/*.c | grep -v sem_wait_no_note) \
 $R/platform/linux/src/nsync_semaphore_futex.c \
 $R/platform/posix/src/per_thread_waiter.c $R/platform/posix/src/yield.c \
 $R/platform/posix/src/time_rep.c $R/platform/posix/src/nsync_panic.c"
INC="-I$R/platform/linux -I$R/platform/gcc -I$R/platform/x86_64 -I$R/platform/posix -I$R/public -I$R/internal"
WRAP="-Wl,--wrap=nsync_mu_lock -Wl,--wrap=nsync_mu_trylock"
for d in demo_free demo_notify; do
	( cd "$B" && gcc -g -O1 -pthread $INC $(dirname $0)/$d.c $LIB $WRAP -o $d ) || exit 1
done
for d in demo_free demo_notify; do
	echo "=== $d control (same operations, no overlap)"
	"$B/$d" control $WD; echo "exit=$?"
	hang=0; pass=0; other=0; i=1
	while [ $i -le $RUNS ]; do
		echo "=== $d run $i"
		"$B/$d" $WD; rc=$?
		echo "exit=$rc"
		case $rc in 3) hang=$((hang+1));; 0) pass=$((pass+1));; *) other=$((other+1));; esac
		i=$((i+1))
	done
	echo "### $d: runs=$RUNS hang(exit 3)=$hang pass(exit 0)=$pass other=$other"
done

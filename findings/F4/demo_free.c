/* demo_free.c -- deterministic demonstration: nsync_note_free(N) blocks for as
   long as a grandchild g stays in use, when it races with nsync_note_free(c)
   (c child of N, g child of c) and free(c) takes its slow path
   (internal/note.c:203-207).

   Tree:   N  (root)
           |
           c          freed by thread A
           |
           g          stays in use (freed by main only at the very end)

   Thread A: nsync_note_free (c)
   Thread B: nsync_note_free (N)
   Client use is legal: every note is freed exactly once, by exactly one
   thread, and no note is used after its own free.  g is "in use" throughout.

   Scheduling is steered by linker interposition only
   (-Wl,--wrap=nsync_mu_lock -Wl,--wrap=nsync_mu_trylock).  The wrappers only
   DELAY calls; they never change arguments or results.

   Exit status: 3 + "HANG: ..." if the defect manifests, 0 + "PASS" otherwise,
   2 if the steering itself failed (interleaving not reached).

   Usage: demo_free [watchdog_seconds]      steered race (default 3 s)
          demo_free control [seconds]       no race: free(c); then free(N)  */

#include "nsync_cpp.h"
#include "platform.h"
#include "compiler.h"
#include "cputype.h"
#include "nsync.h"
#include "dll.h"
#include "sem.h"
#include "wait_internal.h"
#include "common.h"
#include "atomic.h"

#include <stdio.h>
#include <stdlib.h>
#include <string.h>
#include <errno.h>
#include <time.h>
#include <pthread.h>
#include <semaphore.h>

/* ------------------------------------------------------------------ */
/* Steering state.                                                    */

enum { ROLE_NONE = 0, ROLE_A = 1, ROLE_B = 2 };
static __thread int role = ROLE_NONE;

static int steering_on = 0;
static nsync_mu *mu_N = NULL;     /* &N->note_mu */
static nsync_mu *mu_c = NULL;     /* &c->note_mu */

static sem_t sem_B_at_lock_c;     /* B holds N->note_mu, is about to lock c->note_mu */
static sem_t sem_A_trylock_done;  /* A's trylock (N->note_mu) has returned */
static sem_t sem_A_done;          /* nsync_note_free (c) returned */
static sem_t sem_B_done;          /* nsync_note_free (N) returned */

static volatile int A_trylock_calls = 0;
static volatile int A_trylock_result = -1;
static volatile int B_paused_at_lock_c = 0;
static volatile int steer_timeout = 0;

static int timed_wait (sem_t *s, double seconds) {
	struct timespec ts;
	clock_gettime (CLOCK_REALTIME, &ts);
	ts.tv_sec += (time_t) seconds;
	ts.tv_nsec += (long) ((seconds - (double) (time_t) seconds) * 1e9);
	if (ts.tv_nsec >= 1000000000L) {
		ts.tv_sec++;
		ts.tv_nsec -= 1000000000L;
	}
	for (;;) {
		if (sem_timedwait (s, &ts) == 0) {
			return (1);
		}
		if (errno == ETIMEDOUT) {
			return (0);
		}
		/* EINTR: retry */
	}
}

/* Wait inside a wrapper, but never for ever (so that the demo terminates
   even on a library whose lock sequence differs). */
static void steer_wait (sem_t *s, const char *what) {
	if (!timed_wait (s, 10.0)) {
		steer_timeout = 1;
		fprintf (stderr, "steering: timed out waiting for: %s\n", what);
	}
}

void __real_nsync_mu_lock (nsync_mu *mu);
int __real_nsync_mu_trylock (nsync_mu *mu);

/* B = thread inside nsync_note_free (N).  Its first nsync_mu_lock of
   c->note_mu is the one in the child loop (note.c:211), executed while B
   holds N->note_mu (taken at note.c:199).  Hold B there until A's trylock of
   N->note_mu has been performed (and has therefore failed). */
void __wrap_nsync_mu_lock (nsync_mu *mu) {
	if (steering_on && role == ROLE_B && mu == mu_c && !B_paused_at_lock_c) {
		B_paused_at_lock_c = 1;
		sem_post (&sem_B_at_lock_c);
		steer_wait (&sem_A_trylock_done, "A's trylock(N->note_mu)");
	}
	__real_nsync_mu_lock (mu);
}

/* A = thread inside nsync_note_free (c).  Its trylock of N->note_mu
   (note.c:203) is delayed until B holds N->note_mu. */
int __wrap_nsync_mu_trylock (nsync_mu *mu) {
	int r;
	if (steering_on && role == ROLE_A && mu == mu_N && A_trylock_calls == 0) {
		steer_wait (&sem_B_at_lock_c, "B to hold N->note_mu");
		r = __real_nsync_mu_trylock (mu);
		A_trylock_result = r;
		A_trylock_calls++;
		sem_post (&sem_A_trylock_done);
		return (r);
	}
	return (__real_nsync_mu_trylock (mu));
}

/* ------------------------------------------------------------------ */

static nsync_note N, c, g;

static void *thread_A (void *v) {
	(void) v;
	role = ROLE_A;
	nsync_note_free (c);
	sem_post (&sem_A_done);
	return (NULL);
}

static void *thread_B (void *v) {
	(void) v;
	role = ROLE_B;
	nsync_note_free (N);
	sem_post (&sem_B_done);
	return (NULL);
}

static double now_s (void) {
	struct timespec ts;
	clock_gettime (CLOCK_MONOTONIC, &ts);
	return ((double) ts.tv_sec + (double) ts.tv_nsec * 1e-9);
}

int main (int argc, char **argv) {
	pthread_t ta, tb;
	double watchdog = 3.0;
	int control = 0;
	int ai = 1;
	double t_A_done;

	if (ai < argc && strcmp (argv[ai], "control") == 0) {
		control = 1;
		ai++;
	}
	if (ai < argc) {
		watchdog = atof (argv[ai]);
	}
	setvbuf (stdout, NULL, _IOLBF, 0);

	sem_init (&sem_B_at_lock_c, 0, 0);
	sem_init (&sem_A_trylock_done, 0, 0);
	sem_init (&sem_A_done, 0, 0);
	sem_init (&sem_B_done, 0, 0);

	N = nsync_note_new (NULL, nsync_time_no_deadline);
	c = nsync_note_new (N, nsync_time_no_deadline);
	g = nsync_note_new (c, nsync_time_no_deadline);
	mu_N = &N->note_mu;
	mu_c = &c->note_mu;

	if (control) {
		/* Same three notes, same two frees, g in use, but no overlap. */
		printf ("control: free(c) then free(N) sequentially, g in use\n");
		pthread_create (&ta, NULL, &thread_A, NULL);
		if (!timed_wait (&sem_A_done, 10.0)) {
			printf ("control: nsync_note_free(c) did not return?!\n");
			exit (2);
		}
		pthread_join (ta, NULL);
		pthread_create (&tb, NULL, &thread_B, NULL);
		if (!timed_wait (&sem_B_done, watchdog)) {
			printf ("HANG: nsync_note_free(N) still blocked %g s after free(c) returned\n",
				watchdog);
			exit (3);
		}
		pthread_join (tb, NULL);
		printf ("control: nsync_note_free(N) returned although g is in use; "
			"is_notified(g)=%d\n", nsync_note_is_notified (g));
		nsync_note_free (g);
		printf ("PASS\n");
		return (0);
	}

	steering_on = 1;
	pthread_create (&tb, NULL, &thread_B, NULL);
	pthread_create (&ta, NULL, &thread_A, NULL);

	/* free(c) itself must return in every case. */
	if (!timed_wait (&sem_A_done, 30.0)) {
		printf ("UNEXPECTED: nsync_note_free(c) did not return within 30 s\n");
		exit (2);
	}
	t_A_done = now_s ();
	pthread_join (ta, NULL);
	/* c is now freed: do not touch it any more (mu_c is only compared). */

	printf ("steering: B paused before lock(c->note_mu) holding N->note_mu: %d\n",
		B_paused_at_lock_c);
	printf ("steering: A's nsync_mu_trylock(&N->note_mu) calls=%d result=%d%s\n",
		A_trylock_calls, A_trylock_result,
		A_trylock_result == 0 ? "  (=> slow path note.c:204-206 taken)" : "");
	printf ("nsync_note_free(c) returned; g still in use (never freed/notified so far)\n");

	if (!timed_wait (&sem_B_done, watchdog)) {
		double t0;
		printf ("HANG: nsync_note_free(N) still blocked %g s after free(c) returned\n",
			watchdog);
		/* Evidence of what it is blocked on: g was re-parented to N while
		   N's free was already in WAIT_FOR_NO_CHILDREN.  Reading g's
		   fields under g->note_mu is legitimate here (g is ours and alive;
		   g->parent is protected by g->note_mu).  We only print the
		   pointer; N's memory is still valid because free(N) has not
		   finished. */
		nsync_mu_lock (&g->note_mu);
		printf ("evidence: g->parent == N ? %s   (g=%p g->parent=%p N=%p)\n",
			g->parent == N ? "yes" : "no", (void *) g, (void *) g->parent, (void *) N);
		nsync_mu_unlock (&g->note_mu);
		printf ("evidence: is_notified(g)=%d\n", nsync_note_is_notified (g));
		/* Show that the only thing that lets free(N) finish is giving up g. */
		t0 = now_s ();
		nsync_note_free (g);
		if (timed_wait (&sem_B_done, 10.0)) {
			pthread_join (tb, NULL);
			printf ("evidence: nsync_note_free(N) returned %.3f s after the client "
				"freed g\n", now_s () - t0);
		} else {
			printf ("evidence: nsync_note_free(N) STILL blocked 10 s after free(g)\n");
		}
		if (steer_timeout || A_trylock_result != 0) {
			printf ("note: steering was not as intended\n");
		}
		exit (3);
	}
	pthread_join (tb, NULL);
	printf ("nsync_note_free(N) returned %.3f s after free(c) returned, g in use\n",
		now_s () - t_A_done);
	nsync_note_free (g);
	if (steer_timeout || A_trylock_result != 0 || !B_paused_at_lock_c) {
		printf ("INCONCLUSIVE: intended interleaving was not reached\n");
		exit (2);
	}
	printf ("PASS\n");
	return (0);
}

/* demo_notify.c -- deterministic demonstration: nsync_note_notify(N) blocks for
   as long as a grandchild g stays in use and un-notified, when it races with
   nsync_note_free(c) (c child of N, g child of c) and free(c) takes its slow
   path (internal/note.c:203-207).  In addition g ends up as an UN-NOTIFIED
   child of the already NOTIFIED note N.

   Tree:   N  (root)
           |
           c          freed by thread A
           |
           g          stays in use (freed by main only at the very end)

   Thread A: nsync_note_free (c)
   Thread B: nsync_note_notify (N)      (N is freed by main at the very end)
   Client use is legal: every note is freed exactly once, by exactly one
   thread, and no note is used after its own free.  g is "in use" throughout.

   Scheduling is steered by linker interposition only
   (-Wl,--wrap=nsync_mu_lock -Wl,--wrap=nsync_mu_trylock).  The wrappers only
   DELAY calls; they never change arguments or results.

   Exit status: 3 + "HANG: ..." if the defect manifests, 0 + "PASS" otherwise,
   2 if the steering itself failed (interleaving not reached).

   Usage: demo_notify [watchdog_seconds]    steered race (default 3 s)
          demo_notify control [seconds]     no race: free(c); then notify(N)  */

#include "nsync_cpp.h"
#include "platform.h"
#include "compiler.h"
#include "cputype.h"
#include "nsync.h"
#include "dll.h"
#include "sem.h"
#include "wait_internal.h"
#include "common.h"
#include "atomic.h"

#include <stdio.h>
#include <stdlib.h>
#include <string.h>
#include <errno.h>
#include <time.h>
#include <pthread.h>
#include <semaphore.h>

/* ------------------------------------------------------------------ */
/* Steering state.                                                    */

enum { ROLE_NONE = 0, ROLE_A = 1, ROLE_B = 2 };
static __thread int role = ROLE_NONE;

static int steering_on = 0;
static nsync_mu *mu_N = NULL;     /* &N->note_mu */
static nsync_mu *mu_c = NULL;     /* &c->note_mu */

static sem_t sem_B_at_lock_c;     /* B holds N->note_mu, is about to lock c->note_mu */
static sem_t sem_A_trylock_done;  /* A's trylock (N->note_mu) has returned */
static sem_t sem_A_done;          /* nsync_note_free (c) returned */
static sem_t sem_B_done;          /* nsync_note_notify (N) returned */

static volatile int A_trylock_calls = 0;
static volatile int A_trylock_result = -1;
static volatile int B_paused_at_lock_c = 0;
static volatile int steer_timeout = 0;

static int timed_wait (sem_t *s, double seconds) {
	struct timespec ts;
	clock_gettime (CLOCK_REALTIME, &ts);
	ts.tv_sec += (time_t) seconds;
	ts.tv_nsec += (long) ((seconds - (double) (time_t) seconds) * 1e9);
	if (ts.tv_nsec >= 1000000000L) {
		ts.tv_sec++;
		ts.tv_nsec -= 1000000000L;
	}
	for (;;) {
		if (sem_timedwait (s, &ts) == 0) {
			return (1);
		}
		if (errno == ETIMEDOUT) {
			return (0);
		}
		/* EINTR: retry */
	}
}

/* Wait inside a wrapper, but never for ever (so that the demo terminates
   even on a library whose lock sequence differs). */
static void steer_wait (sem_t *s, const char *what) {
	if (!timed_wait (s, 10.0)) {
		steer_timeout = 1;
		fprintf (stderr, "steering: timed out waiting for: %s\n", what);
	}
}

void __real_nsync_mu_lock (nsync_mu *mu);
int __real_nsync_mu_trylock (nsync_mu *mu);

/* B = thread inside nsync_note_notify (N).  Its first nsync_mu_lock of
   c->note_mu is the one in the child loop of note_notify_child (note.c:99),
   executed while B holds N->note_mu (taken at note.c:119) and after
   N->notified has been set (note.c:89).  Hold B there until A's trylock of
   N->note_mu has been performed (and has therefore failed). */
void __wrap_nsync_mu_lock (nsync_mu *mu) {
	if (steering_on && role == ROLE_B && mu == mu_c && !B_paused_at_lock_c) {
		B_paused_at_lock_c = 1;
		sem_post (&sem_B_at_lock_c);
		steer_wait (&sem_A_trylock_done, "A's trylock(N->note_mu)");
	}
	__real_nsync_mu_lock (mu);
}

/* A = thread inside nsync_note_free (c).  Its trylock of N->note_mu
   (note.c:203) is delayed until B holds N->note_mu. */
int __wrap_nsync_mu_trylock (nsync_mu *mu) {
	int r;
	if (steering_on && role == ROLE_A && mu == mu_N && A_trylock_calls == 0) {
		steer_wait (&sem_B_at_lock_c, "B to hold N->note_mu");
		r = __real_nsync_mu_trylock (mu);
		A_trylock_result = r;
		A_trylock_calls++;
		sem_post (&sem_A_trylock_done);
		return (r);
	}
	return (__real_nsync_mu_trylock (mu));
}

/* ------------------------------------------------------------------ */

static nsync_note N, c, g;

static void *thread_A (void *v) {
	(void) v;
	role = ROLE_A;
	nsync_note_free (c);
	sem_post (&sem_A_done);
	return (NULL);
}

static void *thread_B (void *v) {
	(void) v;
	role = ROLE_B;
	nsync_note_notify (N);
	sem_post (&sem_B_done);
	return (NULL);
}

static double now_s (void) {
	struct timespec ts;
	clock_gettime (CLOCK_MONOTONIC, &ts);
	return ((double) ts.tv_sec + (double) ts.tv_nsec * 1e-9);
}

int main (int argc, char **argv) {
	pthread_t ta, tb;
	double watchdog = 3.0;
	int control = 0;
	int ai = 1;
	int g_notified;
	double t_A_done;

	if (ai < argc && strcmp (argv[ai], "control") == 0) {
		control = 1;
		ai++;
	}
	if (ai < argc) {
		watchdog = atof (argv[ai]);
	}
	setvbuf (stdout, NULL, _IOLBF, 0);

	sem_init (&sem_B_at_lock_c, 0, 0);
	sem_init (&sem_A_trylock_done, 0, 0);
	sem_init (&sem_A_done, 0, 0);
	sem_init (&sem_B_done, 0, 0);

	N = nsync_note_new (NULL, nsync_time_no_deadline);
	c = nsync_note_new (N, nsync_time_no_deadline);
	g = nsync_note_new (c, nsync_time_no_deadline);
	mu_N = &N->note_mu;
	mu_c = &c->note_mu;

	if (control) {
		/* Same notes, same operations, g in use, but no overlap. */
		printf ("control: free(c) then notify(N) sequentially, g in use\n");
		pthread_create (&ta, NULL, &thread_A, NULL);
		if (!timed_wait (&sem_A_done, 10.0)) {
			printf ("control: nsync_note_free(c) did not return?!\n");
			exit (2);
		}
		pthread_join (ta, NULL);
		pthread_create (&tb, NULL, &thread_B, NULL);
		if (!timed_wait (&sem_B_done, watchdog)) {
			printf ("HANG: nsync_note_notify(N) still blocked %g s after free(c) returned\n",
				watchdog);
			exit (3);
		}
		pthread_join (tb, NULL);
		g_notified = nsync_note_is_notified (g);
		printf ("control: nsync_note_notify(N) returned; is_notified(N)=%d is_notified(g)=%d\n",
			nsync_note_is_notified (N), g_notified);
		nsync_note_free (g);
		nsync_note_free (N);
		if (!g_notified) {
			printf ("DEFECT: g not notified\n");
			exit (3);
		}
		printf ("PASS\n");
		return (0);
	}

	steering_on = 1;
	pthread_create (&tb, NULL, &thread_B, NULL);
	pthread_create (&ta, NULL, &thread_A, NULL);

	/* free(c) itself must return in every case. */
	if (!timed_wait (&sem_A_done, 30.0)) {
		printf ("UNEXPECTED: nsync_note_free(c) did not return within 30 s\n");
		exit (2);
	}
	t_A_done = now_s ();
	pthread_join (ta, NULL);
	/* c is now freed: do not touch it any more (mu_c is only compared). */

	printf ("steering: B paused before lock(c->note_mu) holding N->note_mu: %d\n",
		B_paused_at_lock_c);
	printf ("steering: A's nsync_mu_trylock(&N->note_mu) calls=%d result=%d%s\n",
		A_trylock_calls, A_trylock_result,
		A_trylock_result == 0 ? "  (=> slow path note.c:204-206 taken)" : "");
	/* nsync_note_is_notified (N) does not take N->note_mu once N->notified
	   is set (note.c:146), so these calls cannot disturb thread B. */
	printf ("nsync_note_free(c) returned; is_notified(N)=%d  is_notified(g)=%d  "
		"(g notified after free(c) returned: %s)\n",
		nsync_note_is_notified (N), nsync_note_is_notified (g),
		nsync_note_is_notified (g) ? "YES" : "NO");

	if (!timed_wait (&sem_B_done, watchdog)) {
		double t0;
		printf ("HANG: nsync_note_notify(N) still blocked %g s after free(c) returned\n",
			watchdog);
		nsync_mu_lock (&g->note_mu);
		printf ("evidence: g->parent == N ? %s   (g=%p g->parent=%p N=%p)\n",
			g->parent == N ? "yes" : "no", (void *) g, (void *) g->parent, (void *) N);
		nsync_mu_unlock (&g->note_mu);
		printf ("evidence: %g s later: is_notified(N)=%d  is_notified(g)=%d  "
			"=> g is %s child of the notified note N\n", now_s () - t_A_done,
			nsync_note_is_notified (N), nsync_note_is_notified (g),
			nsync_note_is_notified (g) ? "a notified" : "an UN-NOTIFIED");
		{
			/* A waiter on g with a short deadline: times out although
			   g's ancestor N was notified seconds ago. */
			nsync_time dl = nsync_time_add (nsync_time_now (), nsync_time_ms (200));
			printf ("evidence: nsync_note_wait(g, now+200ms) = %d\n",
				nsync_note_wait (g, dl));
		}
		/* Show that the only thing that lets notify(N) finish is giving up g. */
		t0 = now_s ();
		nsync_note_free (g);
		if (timed_wait (&sem_B_done, 10.0)) {
			pthread_join (tb, NULL);
			printf ("evidence: nsync_note_notify(N) returned %.3f s after the client "
				"freed g\n", now_s () - t0);
			nsync_note_free (N);
		} else {
			printf ("evidence: nsync_note_notify(N) STILL blocked 10 s after free(g)\n");
		}
		if (steer_timeout || A_trylock_result != 0) {
			printf ("note: steering was not as intended\n");
		}
		exit (3);
	}
	pthread_join (tb, NULL);
	g_notified = nsync_note_is_notified (g);
	printf ("nsync_note_notify(N) returned %.3f s after free(c) returned; is_notified(g)=%d\n",
		now_s () - t_A_done, g_notified);
	nsync_note_free (g);
	nsync_note_free (N);
	if (steer_timeout || A_trylock_result != 0 || !B_paused_at_lock_c) {
		printf ("INCONCLUSIVE: intended interleaving was not reached\n");
		exit (2);
	}
	if (!g_notified) {
		printf ("DEFECT: notify(N) returned but g (adopted by N) is not notified\n");
		exit (3);
	}
	printf ("PASS\n");
	return (0);
}

/* Demonstration for finding F1 (C16/C01/C02): nsync_mu_debug_state_and_waiters
   released the queue spinlock by storing a stale copy of the word.
   Before the fix: within seconds "panic: attempt to nsync_mu_unlock() an nsync_mu
   not held in write mode" (or a hang).  After the fix: prints ok. */
#include "nsync.h"
#include <pthread.h>
#include <stdio.h>
#include <stdlib.h>
static nsync_mu mu;
static volatile int stop;
static long shared;
static void *locker (void *a) { while (!stop) { nsync_mu_lock (&mu); shared++; nsync_mu_unlock (&mu); } return NULL; }
static void *dbg (void *a) { char buf[512]; while (!stop) { nsync_mu_debug_state_and_waiters (&mu, buf, sizeof (buf)); } return NULL; }
int main (int argc, char **argv) {
	pthread_t t[8]; int i; int secs = argc > 1 ? atoi (argv[1]) : 5;
	for (i = 0; i != 6; i++) pthread_create (&t[i], NULL, locker, NULL);
	for (i = 6; i != 8; i++) pthread_create (&t[i], NULL, dbg, NULL);
	nsync_time_sleep (nsync_time_ms (1000 * secs));
	stop = 1;
	for (i = 0; i != 8; i++) pthread_join (t[i], NULL);
	printf ("ok %ld\n", shared);
	return 0;
}

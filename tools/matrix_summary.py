#!/usr/bin/env python3-vt
"""summary of selftest/matrix.json: seeded changes / hand mutants not reported by their own check (MISS), behaviour-preserving edits that
raised an alarm (BENIGN-ALARM), analysis-broken results (BROKEN).  usage: tools/matrix_summary.py"""
import json,sys
M=json.load(open('/verif/selftest/matrix.json'))
PIDS=['C%02d'%i for i in range(1,20)]
miss=[];alarm=[];broken=[];pf=[]
for k,res in sorted(M.items()):
    if '_patch' in res: pf.append(k); continue
    fired=[p for p in PIDS if res.get(p,{}).get('rc')==1]
    br=[p for p in PIDS if res.get(p,{}).get('rc')==2]
    if br: broken.append((k,br))
    if k.startswith('seeded/'):
        own=k.split('/')[1].split('-')[0]
        if own not in fired: miss.append((k,fired))
    elif '/benign/' in k:
        if fired: alarm.append((k,fired,[res[p]['first'][:150] for p in fired]))
    else:
        if not fired: miss.append((k,fired))
print('patches',len(M)); print('MISS',miss); print('BENIGN-ALARM'); [print(' ',a) for a in alarm]; print('BROKEN',broken); print('PATCH-FAILED',pf)

#!/usr/bin/env python3-vt
"""mkmut.py <out.diff> <repo-relative file> <old> <new> [<file> <old> <new> ...]: make a unified diff by string replacement"""
import sys, difflib
out = sys.argv[1]
res = []
args = sys.argv[2:]
for k in range(0, len(args), 3):
    f, old, new = args[k:k+3]
    old = old.encode().decode('unicode_escape'); new = new.encode().decode('unicode_escape')
    s = open('/repo/' + f).read()
    if s.count(old) != 1:
        sys.exit('pattern occurs %d times in %s' % (s.count(old), f))
    t = s.replace(old, new)
    res += list(difflib.unified_diff(s.splitlines(True), t.splitlines(True), 'a/' + f, 'b/' + f))
open(out, 'w').write(''.join(res))
print('wrote', out, len(res), 'lines')

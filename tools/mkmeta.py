#!/usr/bin/env python3-vt
"""write seeded/<id>/meta.json from NOTES.md (author's description), confirm.json (what tools/confirm_seeded.py ran and saw) and
selftest/matrix.json (which checks fire).  usage: tools/mkmeta.py"""
import json, os, re, glob
V = os.path.dirname(os.path.dirname(os.path.abspath(__file__)))
M = json.load(open(os.path.join(V, 'selftest', 'matrix.json'))) if os.path.exists(os.path.join(V, 'selftest', 'matrix.json')) else {}
PIDS = ['C%02d' % i for i in range(1, 20)]
def para_after(text, heads):
    """first paragraph / bullet block following one of the heading phrases"""
    low = text.lower()
    for h in heads:
        k = low.find(h.lower())
        if k >= 0:
            rest = text[k:]
            rest = rest.split('\n', 1)[1] if '\n' in rest and len(rest.split('\n', 1)[0]) < 140 and rest.split('\n', 1)[0].strip().endswith(('**', ':', ':**')) else rest
            out = []
            for line in rest.splitlines():
                if not line.strip():
                    if out:
                        break
                    continue
                if out and (line.startswith('#') or re.match(r'^\*\*[A-Z]', line)):
                    break
                out.append(line.strip())
                if len(' '.join(out)) > 700:
                    break
            s = re.sub(r'\s+', ' ', ' '.join(out)).strip()
            if s:
                return s[:800]
    return ''
for d in sorted(glob.glob(os.path.join(V, 'seeded', 'C*'))):
    mid = os.path.basename(d)
    prop = mid.split('-')[0]
    notes = open(os.path.join(d, 'NOTES.md')).read() if os.path.exists(os.path.join(d, 'NOTES.md')) else ''
    title = next((l.lstrip('# ').strip() for l in notes.splitlines() if l.strip()), mid)
    title = re.sub(r'^(C\d\d\s*/?\s*)?mut\d\s*[—–-]+\s*', '', title).strip()
    needs = para_after(notes, ['needed to manifest', 'what it needs', 'needs to manifest', 'it needs', 'needs:', 'needs'])
    conf = json.load(open(os.path.join(d, 'confirm.json'))) if os.path.exists(os.path.join(d, 'confirm.json')) else {}
    res = M.get('seeded/%s/patch.diff' % mid, {})
    fired = [p for p in PIDS if res.get(p, {}).get('rc') == 1]
    meta = {
        'id': mid, 'property': prop, 'summary': title[:300],
        'needs_to_manifest': needs,
        'files': sorted(set(re.findall(r'^\+\+\+ b/(\S+)', open(os.path.join(d, 'patch.diff')).read(), re.M))),
        'author': 'independent sub-agent given only the property text and a scratch worktree',
        'confirmed': bool(conf.get('confirmed')),
        'ran': {
            'repo_head': conf.get('repo_head'), 'at': conf.get('at'),
            'build': 'cmake -G Ninja + cmake --build on a scratch worktree with patch.diff applied: %s' % ('ok' if conf.get('compiles') else conf.get('error', 'not run')),
            'suite': 'ctest -j8 (26 tests): rc=%s%s' % (conf.get('ctest_rc'), ' (first run rc=%s under load; failed tests passed when re-run alone)' % conf.get('ctest_first_rc') if conf.get('ctest_reruns') else ''),
            'demo_with_change': '%s/%s runs failed' % (conf.get('demo_fails_with_change'), len(conf.get('demo_with_change', []))),
            'demo_unchanged_tree': '%s/%s runs passed' % (conf.get('demo_passes_unchanged'), len(conf.get('demo_unchanged', []))),
            'tool': 'tools/confirm_seeded.py',
        },
        'caught_by': fired,
        'first_report': (res.get(prop, {}).get('first') or '')[:300] if prop in fired else '',
    }
    if os.path.exists(os.path.join(d, 'REBASED.txt')):
        meta['note'] = open(os.path.join(d, 'REBASED.txt')).read().strip()
    json.dump(meta, open(os.path.join(d, 'meta.json'), 'w'), indent=1)
print('meta written for', len(glob.glob(os.path.join(V, 'seeded', 'C*'))))

#!/usr/bin/env python3-vt
"""Apply a patch to a scratch copy of /repo (outside /repo and /verif), run the named checks on the copy, remove it.
usage: tools/mutest.py <patch.diff> <pid> [<pid>...]      prints one line per check: pid rc first-violation-line"""
import os, shutil, subprocess, sys, tempfile
VERIF = os.path.dirname(os.path.dirname(os.path.abspath(__file__)))
def main():
    patch = os.path.abspath(sys.argv[1])
    pids = sys.argv[2:]
    scratch = tempfile.mkdtemp(prefix='nsa-mut-')
    try:
        dst = os.path.join(scratch, 'repo')
        subprocess.run(['rsync', '-a', '--exclude', '_build', '--exclude', '.git', '/repo/', dst + '/'], check=True)
        r = subprocess.run(['patch', '-p1', '-s', '-d', dst, '-i', patch], stdout=subprocess.PIPE, stderr=subprocess.STDOUT, text=True)
        if r.returncode != 0:
            print('PATCH-FAILED', r.stdout)
            return 3
        rc_all = 0
        for pid in pids:
            env = dict(os.environ, NSA_EVIDENCE_DIR=os.path.join(scratch, 'evidence'))
            p = subprocess.run(['python3-vt', '-m', 'nsa.check', pid, '--repo', dst], cwd=VERIF, stdout=subprocess.PIPE, stderr=subprocess.STDOUT, text=True, env=env)
            lines = [l for l in p.stdout.splitlines() if l.startswith(('C', 'ANALYSIS', 'VIOLATION')) and ('VIOLATION' in l or 'ANALYSIS-BROKEN' in l or (': ' in l and '.R' in l.split(':')[0] and 'instances=' not in l))]
            print('%s rc=%d %s' % (pid, p.returncode, ' | '.join(lines[:4])[:600]))
            if '-v' in os.environ.get('MUTEST_FLAGS', ''):
                print(p.stdout)
            rc_all = max(rc_all, p.returncode)
        return rc_all
    finally:
        shutil.rmtree(scratch, ignore_errors=True)
        # drop the cache entries created for the scratch copy
        cache = os.path.join(VERIF, '.cache', 'ir')
sys.exit(main())

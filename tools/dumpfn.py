#!/usr/bin/env python3-vt
"""debug aid: print the IR facts of one function.  usage: tools/dumpfn.py <function> [cfg=C] [repo=/repo]"""
import sys, os
sys.path.insert(0, os.path.dirname(os.path.dirname(os.path.abspath(__file__))))
from nsa import build, ir as IR
name = sys.argv[1]; cfg = sys.argv[2] if len(sys.argv) > 2 else 'C'; repo = sys.argv[3] if len(sys.argv) > 3 else '/repo'
mod = IR.load_cfg(build.get_facts(repo), cfg)
fn = mod.func(name)
for b in fn.blocks:
    print('%s:  preds=%s succ=%s' % (b.id, b.preds, b.succ))
    for i in b.insts:
        if i.op == 'dbg':
            continue
        extra = {k: v for k, v in i.x.items() if k not in ('id', 'op', 'ty', 'ops', 'loc')}
        print('   %-6s = %-8s %-14s %s %s  @%s' % (i.id, i.op, i.ty, i.ops, extra or '', i.line))

#!/bin/sh
# usage: tools/why.sh <patch> <check> [<check> ...]  - apply the patch to a scratch copy of /repo and show what the checks say
P=$1; shift
D=$(mktemp -d /tmp/why.XXXXXX)
rsync -a --exclude _build --exclude .git /repo/ $D/r/ && patch -p1 -s -d $D/r -i "$P" || { echo "patch failed"; rm -rf $D; exit 1; }
for c in "$@"; do NSA_EVIDENCE_DIR=$D/ev python3-vt -m nsa.check $c --repo $D/r 2>&1 | grep -v "^$c C" | grep -v conda | cut -c1-${WHYW:-420} | awk '!seen[$0]++' | head -${WHYN:-6}; done
rm -rf $D

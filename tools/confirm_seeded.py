#!/usr/bin/env python3-vt
"""Confirm a seeded change concretely (this RUNS nsync; it is corpus maintenance, not a registered check):
  - scratch git worktree of /repo (outside /repo and /verif), patch applied, must compile (cmake+ninja)
  - the 26-test suite must pass with the change
  - the demonstration must fail with the change and pass on the unchanged tree
Writes seeded/<id>/confirm.json (what was run, what was seen).  usage: tools/confirm_seeded.py [-j N] [--demo-runs K] id ..."""
import json, os, shutil, subprocess, sys, tempfile, time, glob
from concurrent.futures import ThreadPoolExecutor
V = os.path.dirname(os.path.dirname(os.path.abspath(__file__)))
REPO = '/repo'
SRCS = ("$(ls $R/internal/*.c | grep -v sem_wait_no_note.c) $R/platform/linux/src/nsync_semaphore_futex.c $R/platform/posix/src/per_thread_waiter.c "
        "$R/platform/posix/src/yield.c $R/platform/posix/src/time_rep.c $R/platform/posix/src/nsync_panic.c")
INC = "-I$R/platform/linux -I$R/platform/gcc -I$R/platform/x86_64 -I$R/platform/posix -I$R/public -I$R/internal"

def sh(cmd, cwd=None, timeout=1800, env=None):
    t0 = time.time()
    try:
        p = subprocess.run(cmd, shell=True, cwd=cwd, stdout=subprocess.PIPE, stderr=subprocess.STDOUT, text=True, timeout=timeout, env=env)
        return p.returncode, p.stdout, round(time.time() - t0, 1)
    except subprocess.TimeoutExpired as e:
        return 124, (e.stdout or b'').decode('utf-8', 'replace') if isinstance(e.stdout, bytes) else (e.stdout or ''), round(time.time() - t0, 1)

def demo_cmd(d, R, out):
    """returns shell command that builds and runs the demo against tree R.  The demo scripts were written by different authors with
    different conventions (R from the environment, R as $1, or two levels above the script with the files under $R/seeded_out/<mutN>/):
    the seeded directory is copied to $R/seeded_out/<mutN>/ inside the scratch worktree and the script is run from there with all three."""
    mut = os.path.basename(d).split('-')[-1]
    so = '%s/seeded_out/%s' % (R, mut)
    prep = 'rm -rf %s && mkdir -p %s && cp -r %s/. %s/ && mkdir -p %s.d && cd %s.d' % (so, so, d, so, out, out)
    if os.path.exists(os.path.join(d, 'demo.sh')):
        return '%s && R=%s TMPDIR=%s.d sh %s/demo.sh %s; rc=$?; cd /; rm -rf %s.d; exit $rc' % (prep, R, out, so, R, out)
    src = 'demo.cc' if os.path.exists(os.path.join(d, 'demo.cc')) else 'demo.c'
    import re
    wraps = sorted(set(re.findall(r'--wrap=(\w+)', open(os.path.join(d, src)).read())))
    extra = ' '.join('-Wl,--wrap=' + w for w in wraps)
    return (('%s && R=%s; gcc -g -O1 -pthread ' + extra + ' %s %s/%s %s -o %s -lm || exit 99; timeout 120 %s; rc=$?; rm -f %s; cd /; rm -rf %s.d; exit $rc') % (prep, R, INC, so, src, SRCS, out, out, out, out))

def confirm(mid, demo_runs):
    d = os.path.join(V, 'seeded', mid)
    res = {'id': mid, 'at': time.strftime('%Y-%m-%dT%H:%M:%SZ', time.gmtime())}
    scratch = tempfile.mkdtemp(prefix='nsw-%s-' % mid)
    wt = os.path.join(scratch, 'wt')
    try:
        rc, out, _ = sh('git -C %s worktree add --detach %s HEAD' % (REPO, wt))
        if rc:
            res['error'] = 'worktree: ' + out[-300:]; return res
        res['repo_head'] = subprocess.run(['git', '-C', REPO, 'rev-parse', '--short', 'HEAD'], stdout=subprocess.PIPE, text=True).stdout.strip()
        rc, out, _ = sh('git -C %s apply %s/patch.diff' % (wt, d))
        res['patch_applies'] = rc == 0
        if rc:
            res['error'] = 'patch: ' + out[-300:]; return res
        b = os.path.join(scratch, 'b')
        rc, out, t = sh('cmake -G Ninja -S %s -B %s >/dev/null && cmake --build %s 2>&1 | tail -15' % (wt, b, b))
        res['compiles'] = rc == 0 and 'error' not in out.lower().split('warning')[0]
        res['build_s'] = t
        if rc:
            res['error'] = 'build: ' + out[-600:]; return res
        rc, out, t = sh('ctest --test-dir %s -j8 --timeout 300 > %s/ctest.out 2>&1; rc=$?; tail -8 %s/ctest.out; exit $rc' % (b, scratch, scratch))
        res['ctest_first_rc'] = rc
        retries = 0
        while rc != 0 and retries < 2:
            # the suite is timing-sensitive and this machine is shared with other jobs: re-run only the failed tests, alone
            retries += 1
            rc, out2, t2 = sh('ctest --test-dir %s -j2 --timeout 600 --rerun-failed > %s/ctest.out 2>&1; rc=$?; tail -8 %s/ctest.out; exit $rc' % (b, scratch, scratch))
            res.setdefault('ctest_reruns', []).append({'rc': rc, 'tail': out2.strip().splitlines()[-6:], 's': t2})
        res['ctest_rc'] = rc
        res['ctest_tail'] = out.strip().splitlines()[-6:]
        res['ctest_s'] = t
        shutil.rmtree(b, ignore_errors=True)
        runs_with, runs_without = [], []
        for k in range(demo_runs):
            rc, out, t = sh(demo_cmd(d, wt, os.path.join(scratch, 'demo_w')), timeout=400)
            runs_with.append({'rc': rc, 's': t, 'tail': out.strip().splitlines()[-3:]})
            if rc == 99:
                break
        wo = os.path.join(scratch, 'wo')
        rc, out, _ = sh('git -C %s worktree add --detach %s HEAD' % (REPO, wo))
        for k in range(max(1, demo_runs // 2)):
            rc, out, t = sh(demo_cmd(d, wo, os.path.join(scratch, 'demo_o')), timeout=400)
            runs_without.append({'rc': rc, 's': t, 'tail': out.strip().splitlines()[-3:]})
        res['demo_with_change'] = runs_with
        res['demo_unchanged'] = runs_without
        def buildfail(r):
            return r['rc'] == 99 or any(('ld returned' in l or 'error:' in l or 'No such file' in l) for l in r['tail'])
        res['demo_build_failed'] = any(buildfail(r) for r in runs_with + runs_without)
        res['demo_fails_with_change'] = sum(1 for r in runs_with if r['rc'] != 0 and not buildfail(r))
        res['demo_passes_unchanged'] = sum(1 for r in runs_without if r['rc'] == 0)
        res['confirmed'] = bool(res['compiles'] and res['ctest_rc'] == 0 and res['demo_fails_with_change'] >= 1
                                and res['demo_passes_unchanged'] == len(runs_without))
        return res
    finally:
        sh('git -C %s worktree remove --force %s' % (REPO, wt))
        sh('git -C %s worktree remove --force %s' % (REPO, os.path.join(scratch, 'wo')))
        shutil.rmtree(scratch, ignore_errors=True)
        sh('git -C %s worktree prune' % REPO)

def main():
    a = sys.argv[1:]
    j, k = 2, 2
    while a and a[0].startswith('-'):
        if a[0] == '-j': j = int(a[1]); a = a[2:]
        elif a[0] == '--demo-runs': k = int(a[1]); a = a[2:]
        else: break
    ids = a or sorted(os.path.basename(p) for p in glob.glob(os.path.join(V, 'seeded', '*')) if os.path.isdir(p))
    with ThreadPoolExecutor(max_workers=j) as ex:
        for res in ex.map(lambda m: confirm(m, k), ids):
            json.dump(res, open(os.path.join(V, 'seeded', res['id'], 'confirm.json'), 'w'), indent=1)
            print('%-12s confirmed=%s compiles=%s ctest_rc=%s demo_fail_with=%s/%s demo_pass_without=%s/%s %s' % (
                res['id'], res.get('confirmed'), res.get('compiles'), res.get('ctest_rc'), res.get('demo_fails_with_change'), len(res.get('demo_with_change', [])),
                res.get('demo_passes_unchanged'), len(res.get('demo_unchanged', [])), res.get('error', '')), flush=True)
main()

#!/usr/bin/env python3-vt
"""kill processes whose command line contains argv[1], never this process or its ancestors (so that the calling shell survives)"""
import os, sys, signal
pat = sys.argv[1]
anc = set()
p = os.getpid()
while p > 1:
    anc.add(p)
    try:
        p = int(open('/proc/%d/stat' % p).read().rsplit(')', 1)[1].split()[1])
    except Exception:
        break
n = 0
for d in os.listdir('/proc'):
    if not d.isdigit() or int(d) in anc:
        continue
    try:
        cmd = open('/proc/%s/cmdline' % d, 'rb').read().replace(b'\0', b' ').decode('utf-8', 'replace')
    except Exception:
        continue
    if pat in cmd and 'killpat.py' not in cmd:
        try:
            os.kill(int(d), signal.SIGTERM); n += 1
        except Exception:
            pass
print('killed', n)

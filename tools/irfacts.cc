// irfacts: dump an LLVM module (bitcode or .ll) as JSON facts for the nsync static checks.
// Never executes anything; it is a pure reader of clang's IR.
//
// build: clang++ $(llvm-config-14 --cxxflags) -fno-rtti irfacts.cc -o irfacts /usr/lib/llvm-14/lib/libLLVM-14.so
// usage: irfacts in.bc out.json
#include "llvm/IR/Constants.h"
#include "llvm/IR/DataLayout.h"
#include "llvm/IR/DebugInfo.h"
#include "llvm/IR/DebugInfoMetadata.h"
#include "llvm/IR/Function.h"
#include "llvm/IR/GlobalVariable.h"
#include "llvm/IR/InstIterator.h"
#include "llvm/IR/Instructions.h"
#include "llvm/IR/IntrinsicInst.h"
#include "llvm/IR/LLVMContext.h"
#include "llvm/IR/Module.h"
#include "llvm/IR/Operator.h"
#include "llvm/IRReader/IRReader.h"
#include "llvm/Support/JSON.h"
#include "llvm/Support/SourceMgr.h"
#include "llvm/Support/raw_ostream.h"
#include <map>
#include <set>
#include <string>

using namespace llvm;

static std::string tyStr(Type *T) {
  std::string s;
  raw_string_ostream os(s);
  T->print(os, false, true);
  return os.str();
}

static const char *ordStr(AtomicOrdering o) {
  switch (o) {
  case AtomicOrdering::NotAtomic: return "na";
  case AtomicOrdering::Unordered: return "unordered";
  case AtomicOrdering::Monotonic: return "relaxed";
  case AtomicOrdering::Acquire: return "acquire";
  case AtomicOrdering::Release: return "release";
  case AtomicOrdering::AcquireRelease: return "acq_rel";
  case AtomicOrdering::SequentiallyConsistent: return "seq_cst";
  }
  return "?";
}

struct FnCtx {
  std::map<const Value *, std::string> ids;
  std::map<const BasicBlock *, std::string> bids;
};

static const DataLayout *DL;

static json::Value constRef(const Constant *C, int depth);

static json::Value valRef(const Value *V, FnCtx *fc) {
  if (fc) {
    auto it = fc->ids.find(V);
    if (it != fc->ids.end()) return json::Value(it->second);
  }
  if (auto *C = dyn_cast<Constant>(V)) return constRef(C, 0);
  if (auto *MV = dyn_cast<MetadataAsValue>(V)) {
    (void)MV;
    return json::Object{{"k", "meta"}};
  }
  if (isa<InlineAsm>(V)) return json::Object{{"k", "asm"}};
  if (auto *BB = dyn_cast<BasicBlock>(V)) {
    if (fc) return json::Value(fc->bids[BB]);
  }
  return json::Object{{"k", "unknown"}};
}

static json::Value constRef(const Constant *C, int depth) {
  if (auto *CI = dyn_cast<ConstantInt>(C)) {
    unsigned w = CI->getBitWidth();
    if (w <= 64)
      return json::Object{{"k", "int"}, {"w", (int64_t)w}, {"v", (int64_t)CI->getSExtValue()}};
    return json::Object{{"k", "int"}, {"w", (int64_t)w}, {"v", 0}, {"big", true}};
  }
  if (isa<ConstantPointerNull>(C)) return json::Object{{"k", "null"}};
  if (isa<UndefValue>(C)) return json::Object{{"k", "undef"}};
  if (auto *F = dyn_cast<Function>(C)) return json::Object{{"k", "func"}, {"n", F->getName().str()}};
  if (auto *G = dyn_cast<GlobalVariable>(C)) return json::Object{{"k", "global"}, {"n", G->getName().str()}};
  if (auto *GA = dyn_cast<GlobalAlias>(C)) return json::Object{{"k", "global"}, {"n", GA->getName().str()}};
  if (isa<ConstantAggregateZero>(C)) return json::Object{{"k", "zero"}, {"ty", tyStr(C->getType())}};
  if (auto *CDS = dyn_cast<ConstantDataSequential>(C)) {
    if (CDS->isString()) return json::Object{{"k", "str"}, {"v", CDS->getAsString().str()}};
    json::Array a;
    for (unsigned i = 0; i < CDS->getNumElements(); i++) a.push_back(constRef(CDS->getElementAsConstant(i), depth + 1));
    return json::Object{{"k", "agg"}, {"ty", tyStr(C->getType())}, {"elts", std::move(a)}};
  }
  if (isa<ConstantAggregate>(C)) {
    json::Array a;
    for (unsigned i = 0; i < C->getNumOperands(); i++) a.push_back(constRef(cast<Constant>(C->getOperand(i)), depth + 1));
    return json::Object{{"k", "agg"}, {"ty", tyStr(C->getType())}, {"elts", std::move(a)}};
  }
  if (auto *CE = dyn_cast<ConstantExpr>(C)) {
    json::Object o{{"k", "cexpr"}, {"op", CE->getOpcodeName()}, {"ty", tyStr(CE->getType())}};
    json::Array a;
    for (unsigned i = 0; i < CE->getNumOperands(); i++) a.push_back(constRef(cast<Constant>(CE->getOperand(i)), depth + 1));
    o["ops"] = std::move(a);
    if (auto *GO = dyn_cast<GEPOperator>(CE)) {
      APInt off(DL->getIndexSizeInBits(GO->getPointerAddressSpace()), 0);
      if (GO->accumulateConstantOffset(*DL, off)) o["coff"] = (int64_t)off.getSExtValue();
      o["srcty"] = tyStr(GO->getSourceElementType());
    }
    return std::move(o);
  }
  if (auto *CF = dyn_cast<ConstantFP>(C)) {
    (void)CF;
    return json::Object{{"k", "fp"}};
  }
  return json::Object{{"k", "unknownconst"}};
}

static json::Value locJson(const DILocation *L) {
  if (!L) return nullptr;
  json::Array a;
  a.push_back(L->getFilename().str());
  a.push_back((int64_t)L->getLine());
  a.push_back((int64_t)L->getColumn());
  std::string scope;
  if (auto *SP = L->getScope()->getSubprogram()) scope = SP->getName().str();
  a.push_back(scope);
  if (auto *IA = L->getInlinedAt()) a.push_back(locJson(IA));
  return std::move(a);
}

static json::Value gepPath(const GEPOperator *G, FnCtx *fc) {
  json::Array path;
  Type *cur = G->getSourceElementType();
  bool first = true;
  for (auto it = G->idx_begin(); it != G->idx_end(); ++it) {
    const Value *idx = *it;
    if (first) {
      first = false;
      path.push_back(json::Object{{"p", (int64_t)DL->getTypeAllocSize(cur)}, {"i", valRef(idx, fc)}});
      continue;
    }
    if (auto *ST = dyn_cast<StructType>(cur)) {
      unsigned f = cast<ConstantInt>(idx)->getZExtValue();
      const StructLayout *SL = DL->getStructLayout(ST);
      std::string nm = ST->hasName() ? ST->getName().str() : tyStr(ST);
      path.push_back(json::Object{{"s", nm}, {"f", (int64_t)f}, {"off", (int64_t)SL->getElementOffset(f)}});
      cur = ST->getElementType(f);
    } else if (auto *AT = dyn_cast<ArrayType>(cur)) {
      cur = AT->getElementType();
      path.push_back(json::Object{{"a", (int64_t)DL->getTypeAllocSize(cur)}, {"i", valRef(idx, fc)}});
    } else if (auto *VT = dyn_cast<VectorType>(cur)) {
      cur = VT->getElementType();
      path.push_back(json::Object{{"a", (int64_t)DL->getTypeAllocSize(cur)}, {"i", valRef(idx, fc)}});
    } else {
      path.push_back(json::Object{{"bad", true}});
    }
  }
  return std::move(path);
}

static std::string diTypeName(const DIType *T) {
  int guard = 0;
  while (T && guard++ < 16) {
    if (!T->getName().empty()) return T->getName().str();
    if (auto *D = dyn_cast<DIDerivedType>(T)) {
      T = D->getBaseType();
      continue;
    }
    break;
  }
  return "";
}

int main(int argc, char **argv) {
  if (argc != 3) {
    errs() << "usage: irfacts in.bc out.json\n";
    return 2;
  }
  LLVMContext Ctx;
  SMDiagnostic Err;
  std::unique_ptr<Module> M = parseIRFile(argv[1], Err, Ctx);
  if (!M) {
    Err.print("irfacts", errs());
    return 2;
  }
  DL = &M->getDataLayout();
  std::error_code EC;
  raw_fd_ostream out(argv[2], EC);
  if (EC) {
    errs() << "cannot write " << argv[2] << "\n";
    return 2;
  }
  json::Object root;
  root["source"] = M->getSourceFileName();
  root["datalayout"] = DL->getStringRepresentation();

  // struct types
  json::Object structs;
  for (StructType *ST : M->getIdentifiedStructTypes()) {
    if (ST->isOpaque()) continue;
    const StructLayout *SL = DL->getStructLayout(ST);
    json::Array elts;
    for (unsigned i = 0; i < ST->getNumElements(); i++)
      elts.push_back(json::Object{{"ty", tyStr(ST->getElementType(i))},
                                  {"off", (int64_t)SL->getElementOffset(i)},
                                  {"size", (int64_t)DL->getTypeAllocSize(ST->getElementType(i))}});
    structs[ST->getName().str()] = json::Object{{"size", (int64_t)SL->getSizeInBytes()}, {"elts", std::move(elts)}};
  }
  root["structs"] = std::move(structs);

  // debug-info composite types: member names by offset
  DebugInfoFinder DIF;
  DIF.processModule(*M);
  json::Array ditypes;
  std::map<const DICompositeType *, std::set<std::string>> typedefNames;
  for (const DIType *T : DIF.types()) {
    if (auto *D = dyn_cast<DIDerivedType>(T)) {
      if (D->getTag() == dwarf::DW_TAG_typedef) {
        const DIType *B = D->getBaseType();
        if (auto *CT = dyn_cast_or_null<DICompositeType>(B)) typedefNames[CT].insert(D->getName().str());
      }
    }
  }
  for (const DIType *T : DIF.types()) {
    auto *CT = dyn_cast<DICompositeType>(T);
    if (!CT) continue;
    if (CT->getTag() != dwarf::DW_TAG_structure_type && CT->getTag() != dwarf::DW_TAG_union_type &&
        CT->getTag() != dwarf::DW_TAG_class_type)
      continue;
    if (CT->isForwardDecl()) continue;
    json::Array names;
    if (!CT->getName().empty()) names.push_back(CT->getName().str());
    for (auto &n : typedefNames[CT]) names.push_back(n);
    json::Array members;
    for (const DINode *E : CT->getElements()) {
      auto *Mb = dyn_cast<DIDerivedType>(E);
      if (!Mb || Mb->getTag() != dwarf::DW_TAG_member) continue;
      if (Mb->isStaticMember()) continue;
      members.push_back(json::Object{{"name", Mb->getName().str()},
                                     {"off", (int64_t)(Mb->getOffsetInBits() / 8)},
                                     {"size", (int64_t)(Mb->getSizeInBits() / 8)},
                                     {"ty", diTypeName(Mb->getBaseType())}});
    }
    ditypes.push_back(json::Object{{"names", std::move(names)},
                                   {"size", (int64_t)(CT->getSizeInBits() / 8)},
                                   {"members", std::move(members)}});
  }
  root["ditypes"] = std::move(ditypes);

  // globals
  json::Object globals;
  for (const GlobalVariable &G : M->globals()) {
    json::Object g{{"ty", tyStr(G.getValueType())},
                   {"const", G.isConstant()},
                   {"internal", G.hasLocalLinkage()},
                   {"tls", G.isThreadLocal()},
                   {"decl", G.isDeclaration()}};
    if (G.hasInitializer()) g["init"] = constRef(G.getInitializer(), 0);
    SmallVector<DIGlobalVariableExpression *, 1> GVs;
    G.getDebugInfo(GVs);
    if (!GVs.empty()) {
      auto *DV = GVs[0]->getVariable();
      g["file"] = DV->getFilename().str();
      g["line"] = (int64_t)DV->getLine();
      g["srcname"] = DV->getName().str();
    }
    globals[G.getName().str()] = std::move(g);
  }
  root["globals"] = std::move(globals);

  // functions
  json::Object funcs;
  for (const Function &F : *M) {
    json::Object fo{{"decl", F.isDeclaration()},
                    {"internal", F.hasLocalLinkage()},
                    {"ret", tyStr(F.getReturnType())},
                    {"vararg", F.isVarArg()}};
    json::Array args;
    FnCtx fc;
    unsigned ai = 0;
    for (const Argument &A : F.args()) {
      std::string id = "a" + std::to_string(ai++);
      fc.ids[&A] = id;
      args.push_back(json::Object{{"id", id}, {"ty", tyStr(A.getType())}});
    }
    fo["args"] = std::move(args);
    {
      // promises made to the optimiser by source-level attributes (const / pure / returns_nonnull ...): the rules compare them with
      // what the body really does
      json::Array fa, ra;
      if (F.doesNotAccessMemory()) fa.push_back("readnone");
      else if (F.onlyReadsMemory()) fa.push_back("readonly");
      if (F.hasFnAttribute(Attribute::NoReturn)) fa.push_back("noreturn");
      if (F.hasRetAttribute(Attribute::NonNull)) ra.push_back("nonnull");
      if (F.hasRetAttribute(Attribute::NoAlias)) ra.push_back("noalias");
      fo["fattrs"] = std::move(fa);
      fo["rattrs"] = std::move(ra);
    }
    if (auto *SP = F.getSubprogram()) {
      fo["file"] = SP->getFilename().str();
      fo["line"] = (int64_t)SP->getLine();
      fo["srcname"] = SP->getName().str();
    }
    if (!F.isDeclaration()) {
      unsigned bi = 0, ii = 0;
      for (const BasicBlock &BB : F) {
        fc.bids[&BB] = "b" + std::to_string(bi++);
        for (const Instruction &I : BB) fc.ids[&I] = "i" + std::to_string(ii++);
      }
      json::Array blocks;
      for (const BasicBlock &BB : F) {
        json::Array insts;
        for (const Instruction &I : BB) {
          json::Object io{{"id", fc.ids[&I]}, {"op", I.getOpcodeName()}, {"ty", tyStr(I.getType())}};
          if (const DebugLoc &DLc = I.getDebugLoc()) io["loc"] = locJson(DLc.get());
          if (auto *DVI = dyn_cast<DbgVariableIntrinsic>(&I)) {
            io["op"] = "dbg";
            io["var"] = DVI->getVariable()->getName().str();
            io["addr"] = isa<DbgDeclareInst>(DVI);
            if (DVI->getNumVariableLocationOps() == 1 && DVI->getVariableLocationOp(0))
              io["val"] = valRef(DVI->getVariableLocationOp(0), &fc);
            insts.push_back(std::move(io));
            continue;
          }
          if (isa<DbgInfoIntrinsic>(&I)) continue;
          json::Array ops;
          if (auto *PN = dyn_cast<PHINode>(&I)) {
            for (unsigned k = 0; k < PN->getNumIncomingValues(); k++) {
              json::Array pr;
              pr.push_back(valRef(PN->getIncomingValue(k), &fc));
              pr.push_back(fc.bids[PN->getIncomingBlock(k)]);
              ops.push_back(std::move(pr));
            }
            io["ops"] = std::move(ops);
            insts.push_back(std::move(io));
            continue;
          }
          if (auto *CB = dyn_cast<CallBase>(&I)) {
            const Value *cv = CB->getCalledOperand()->stripPointerCasts();
            if (auto *CF = dyn_cast<Function>(cv)) {
              io["callee"] = CF->getName().str();
            } else {
              io["callee"] = nullptr;
              io["cv"] = valRef(CB->getCalledOperand(), &fc);
            }
            for (unsigned k = 0; k < CB->arg_size(); k++) ops.push_back(valRef(CB->getArgOperand(k), &fc));
            io["ops"] = std::move(ops);
            insts.push_back(std::move(io));
            continue;
          }
          if (auto *BI = dyn_cast<BranchInst>(&I)) {
            json::Array tg;
            if (BI->isConditional()) {
              ops.push_back(valRef(BI->getCondition(), &fc));
              tg.push_back(fc.bids[BI->getSuccessor(0)]);
              tg.push_back(fc.bids[BI->getSuccessor(1)]);
            } else {
              tg.push_back(fc.bids[BI->getSuccessor(0)]);
            }
            io["ops"] = std::move(ops);
            io["targets"] = std::move(tg);
            insts.push_back(std::move(io));
            continue;
          }
          if (auto *SI = dyn_cast<SwitchInst>(&I)) {
            ops.push_back(valRef(SI->getCondition(), &fc));
            json::Array tg, cases;
            tg.push_back(fc.bids[SI->getDefaultDest()]);
            for (auto &c : SI->cases()) {
              json::Array pr;
              pr.push_back((int64_t)c.getCaseValue()->getSExtValue());
              pr.push_back(fc.bids[c.getCaseSuccessor()]);
              cases.push_back(std::move(pr));
            }
            io["ops"] = std::move(ops);
            io["targets"] = std::move(tg);
            io["cases"] = std::move(cases);
            insts.push_back(std::move(io));
            continue;
          }
          for (unsigned k = 0; k < I.getNumOperands(); k++) ops.push_back(valRef(I.getOperand(k), &fc));
          io["ops"] = std::move(ops);
          if (auto *LI = dyn_cast<LoadInst>(&I)) {
            io["ord"] = ordStr(LI->getOrdering());
            if (LI->isVolatile()) io["vol"] = true;
            io["pty"] = tyStr(LI->getPointerOperandType());
          } else if (auto *SI2 = dyn_cast<StoreInst>(&I)) {
            io["ord"] = ordStr(SI2->getOrdering());
            if (SI2->isVolatile()) io["vol"] = true;
            io["pty"] = tyStr(SI2->getPointerOperandType());
            io["vty"] = tyStr(SI2->getValueOperand()->getType());
          } else if (auto *CX = dyn_cast<AtomicCmpXchgInst>(&I)) {
            io["ord"] = ordStr(CX->getSuccessOrdering());
            io["ford"] = ordStr(CX->getFailureOrdering());
            if (CX->isWeak()) io["weak"] = true;
          } else if (auto *RMW = dyn_cast<AtomicRMWInst>(&I)) {
            io["ord"] = ordStr(RMW->getOrdering());
            io["rmw"] = AtomicRMWInst::getOperationName(RMW->getOperation()).str();
          } else if (auto *FI = dyn_cast<FenceInst>(&I)) {
            io["ord"] = ordStr(FI->getOrdering());
          } else if (auto *IC = dyn_cast<ICmpInst>(&I)) {
            io["pred"] = CmpInst::getPredicateName(IC->getPredicate()).str();
          } else if (auto *GEP = dyn_cast<GetElementPtrInst>(&I)) {
            auto *GO = cast<GEPOperator>(GEP);
            io["srcty"] = tyStr(GO->getSourceElementType());
            io["path"] = gepPath(GO, &fc);
            APInt off(DL->getIndexSizeInBits(GO->getPointerAddressSpace()), 0);
            if (GO->accumulateConstantOffset(*DL, off)) io["coff"] = (int64_t)off.getSExtValue();
          } else if (auto *AI = dyn_cast<AllocaInst>(&I)) {
            io["aty"] = tyStr(AI->getAllocatedType());
            io["asize"] = (int64_t)DL->getTypeAllocSize(AI->getAllocatedType());
          } else if (auto *EV = dyn_cast<ExtractValueInst>(&I)) {
            json::Array ix;
            for (unsigned x : EV->indices()) ix.push_back((int64_t)x);
            io["idx"] = std::move(ix);
          } else if (auto *IV = dyn_cast<InsertValueInst>(&I)) {
            json::Array ix;
            for (unsigned x : IV->indices()) ix.push_back((int64_t)x);
            io["idx"] = std::move(ix);
          } else if (auto *CI2 = dyn_cast<CastInst>(&I)) {
            io["sty"] = tyStr(CI2->getSrcTy());
          }
          insts.push_back(std::move(io));
        }
        json::Array succ;
        for (const BasicBlock *S : successors(&BB)) succ.push_back(fc.bids[S]);
        blocks.push_back(json::Object{{"id", fc.bids[&BB]}, {"insts", std::move(insts)}, {"succ", std::move(succ)}});
      }
      fo["blocks"] = std::move(blocks);
    }
    funcs[F.getName().str()] = std::move(fo);
  }
  root["functions"] = std::move(funcs);
  out << json::Value(std::move(root));
  out << "\n";
  return 0;
}

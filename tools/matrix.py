#!/usr/bin/env python3-vt
"""Run every check against every patch (seeded/*/patch.diff, selftest/mutants/*.diff, selftest/benign/*.diff) on scratch copies of /repo.
Writes selftest/matrix.json: {patch: {pid: rc}} and prints a table.  usage: tools/matrix.py [-j N] [--pids C05,C07] [patch ...]   (--pids: re-run only these checks and merge into the stored rows)"""
import json, os, shutil, subprocess, sys, tempfile, glob
from concurrent.futures import ThreadPoolExecutor
V = os.path.dirname(os.path.dirname(os.path.abspath(__file__)))
PIDS = ['C%02d' % i for i in range(1, 20)]
SNAP = None
def run_patch(patch):
    scratch = tempfile.mkdtemp(prefix='nsa-mx-')
    res = {}
    try:
        dst = os.path.join(scratch, 'repo')
        subprocess.run(['rsync', '-a', '--exclude', '_build', '--exclude', '.git', '/repo/', dst + '/'], check=True)
        r = subprocess.run(['patch', '-p1', '-s', '-d', dst, '-i', patch], stdout=subprocess.PIPE, stderr=subprocess.STDOUT, text=True)
        if r.returncode != 0:
            return patch, {'_patch': 'FAILED ' + r.stdout[:200]}
        env = dict(os.environ, NSA_EVIDENCE_DIR=os.path.join(scratch, 'evidence'), NSA_VERIF_HOME=V)
        for pid in PIDS:
            p = subprocess.run(['python3-vt', '-m', 'nsa.check', pid, '--repo', dst], cwd=SNAP or V, stdout=subprocess.PIPE, stderr=subprocess.STDOUT, text=True, env=env)
            first = next((l for l in p.stdout.splitlines() if l.startswith(pid + '.') or l.startswith('ANALYSIS-BROKEN')), '')
            res[pid] = {'rc': p.returncode, 'first': first[:300]}
    finally:
        shutil.rmtree(scratch, ignore_errors=True)
    return patch, res
def main():
    args = sys.argv[1:]
    j = 6
    global PIDS
    only = False
    while args and args[0] in ('-j', '--pids'):
        if args[0] == '-j':
            j = int(args[1]); args = args[2:]
        else:
            PIDS = args[1].split(','); only = True; args = args[2:]
    patches = args or sorted(glob.glob(os.path.join(V, 'seeded', '*', 'patch.diff')) + glob.glob(os.path.join(V, 'selftest', 'mutants', '*.diff')) + glob.glob(os.path.join(V, 'selftest', 'benign', '*.diff')))
    # run from a snapshot of the checker, so that editing nsa/ while the matrix runs does not produce mixed results
    global SNAP
    SNAP = tempfile.mkdtemp(prefix='nsa-snap-')
    shutil.copytree(os.path.join(V, 'nsa'), os.path.join(SNAP, 'nsa'), ignore=shutil.ignore_patterns('__pycache__'))
    for f in ('properties.jsonl', 'known_findings.txt'):
        shutil.copy(os.path.join(V, f), SNAP)
    out = {}
    mpath = os.path.join(V, 'selftest', 'matrix.json')
    if os.path.exists(mpath) and (args or only):
        out = json.load(open(mpath))
    with ThreadPoolExecutor(max_workers=j) as ex:
        for patch, res in ex.map(run_patch, patches):
            key = os.path.relpath(patch, V)
            if only and key in out and '_patch' not in res:
                merged = dict(out[key]); merged.update(res); res = merged
            out[key] = res
            fired = [p for p in PIDS if res.get(p, {}).get('rc') == 1]
            broken = [p for p in PIDS if res.get(p, {}).get('rc') == 2]
            print('%-55s fired=%s broken=%s %s' % (key, ','.join(fired) or '-', ','.join(broken) or '-', res.get('_patch', '')), flush=True)
    if (args or only) and os.path.exists(mpath):
        # merge with what a concurrent run may have written meanwhile
        cur = json.load(open(mpath)); cur.update({k: out[k] for k in (os.path.relpath(p, V) for p in patches)}); out = cur
    json.dump(out, open(mpath, 'w'), indent=1, sort_keys=True)
    shutil.rmtree(SNAP, ignore_errors=True)
main()

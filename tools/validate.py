#!/usr/bin/env python3-vt
"""validate MANIFEST.json and every evidence file against the schemas in /root/.vp"""
import json, glob, sys, jsonschema
ok = True
m = json.load(open('/verif/MANIFEST.json'))
try:
    jsonschema.validate(m, json.load(open('/root/.vp/MANIFEST.schema.json'))); print('MANIFEST ok, checks:', len(m['checks']))
except Exception as e:
    ok = False; print('MANIFEST INVALID', str(e)[:500])
es = json.load(open('/root/.vp/EVIDENCE.schema.json'))
for f in sorted(glob.glob('/verif/evidence/*.json')):
    try:
        e = json.load(open(f)); jsonschema.validate(e, es)
    except Exception as ex:
        ok = False; print(f, 'INVALID', str(ex)[:300])
print('evidence validated')
sys.exit(0 if ok else 1)

#!/usr/bin/env python3-vt
"""Regenerate MANIFEST.json from tools/manifest_checks.json (claimed checks) + properties.jsonl (everything else -> not_applicable)."""
import json, os
V = os.path.dirname(os.path.dirname(os.path.abspath(__file__)))
checks = json.load(open(os.path.join(V, 'tools', 'manifest_checks.json')))
props = [json.loads(l) for l in open(os.path.join(V, 'properties.jsonl'))]
claimed = {c['property_id'] for c in checks['checks']}
na = dict(checks.get('not_applicable', {}))
out = {
    'version': 1,
    'setup_cmd': 'python3-vt -m nsa.build setup',
    'hooks': {
        'guard': 'NSYNC_VERIF',
        'enable': 'no source hooks are needed: the checks read clang-14 LLVM IR of the unmodified sources (flags taken from the CMake compile database)',
        'baseline_off_cmd': 'rm -rf /tmp/nsync-baseline-off && cmake -G Ninja -S /repo -B /tmp/nsync-baseline-off >/dev/null && cmake --build /tmp/nsync-baseline-off >/dev/null && ctest --test-dir /tmp/nsync-baseline-off -j8 --timeout 900; rc=$?; rm -rf /tmp/nsync-baseline-off; exit $rc',
        'source_commits': [],
        'add_only': True,
    },
    'engines': checks.get('engines', []),
    'checks': [],
    'notes': checks.get('notes', ''),
    'not_applicable': [],
}
for c in checks['checks']:
    pid = c['property_id']
    e = {
        'property_id': pid,
        'quick_cmd': 'python3-vt -m nsa.check %s --tier quick' % pid,
        'thorough_cmd': 'python3-vt -m nsa.check %s --tier thorough' % pid,
        'evidence_file': '/verif/evidence/%s.json' % pid,
        'replay_cmd_template': 'python3-vt -m nsa.replay {path}',
        'engine': c.get('engine', 'nsa'),
        'level_claimed': c['level_claimed'],
        'level_note': c['level_note'],
        'technique': c['technique'],
    }
    out['checks'].append(e)
for p in props:
    if p['id'] not in claimed:
        out['not_applicable'].append({'property_id': p['id'], 'reason': na.get(p['id'], 'check not implemented yet in this revision (see DESIGN.md section 4 for the planned static rules)')})
json.dump(out, open(os.path.join(V, 'MANIFEST.json'), 'w'), indent=1)
print('claimed:', sorted(claimed), 'not_applicable:', [x['property_id'] for x in out['not_applicable']])

#!/usr/bin/env python3-vt
"""copy a seed agent's output (<src>/out/mut1, mut2, ...) into seeded/<Cpp>-mut<k>, k continuing after the highest existing index
(also counting seeded/_obsolete).  usage: tools/import_round.py <Cpp> <src dir>"""
import sys, os, re, shutil, glob
V = os.path.dirname(os.path.dirname(os.path.abspath(__file__)))
pid, src = sys.argv[1], sys.argv[2]
have = [int(m.group(1)) for m in (re.search(r'mut(\d+)', os.path.basename(d)) for d in glob.glob(os.path.join(V, 'seeded', pid + '-mut*')) + glob.glob(os.path.join(V, 'seeded', '_obsolete', pid + '-mut*'))) if m]
k = max(have + [0])
for m in sorted(glob.glob(os.path.join(src, 'out', 'mut*'))):
    if not os.path.exists(os.path.join(m, 'patch.diff')):
        print('skip', m, '(no patch.diff)'); continue
    k += 1
    dst = os.path.join(V, 'seeded', '%s-mut%d' % (pid, k))
    assert not os.path.exists(dst)
    os.makedirs(dst)
    for f in os.listdir(m):
        p = os.path.join(m, f)
        if os.path.isfile(p) and os.path.getsize(p) < 400000 and not f.endswith(('.o', '.a', '.bin')) and os.access(p, os.R_OK):
            if os.access(p, os.X_OK) and not f.endswith('.sh'):
                continue
            shutil.copy2(p, os.path.join(dst, f))
    print(m, '->', dst, sorted(os.listdir(dst)))

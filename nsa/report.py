"""Evidence files, exit codes, known findings.  Exit 0 = all obligations discharged, 1 = VIOLATION, 2 = ANALYSIS-BROKEN."""
import hashlib, json, os, sys, time

VERIF = os.path.dirname(os.path.dirname(os.path.abspath(__file__)))

class AnalysisBroken(Exception):
    """an anchor vanished, an instance floor was not met, or a construct is outside an engine's domain"""

class Violation:
    def __init__(self, rule, where, msg, site=None, witness=None):
        self.rule = rule          # e.g. 'C01.R2'
        self.where = where        # file:line in function
        self.msg = msg
        self.site = site or ''    # stable key: function/construct (no line numbers)
        self.witness = witness or {}
    def key(self):
        return 'rule=%s site=%s' % (self.rule, self.site)
    def __repr__(self):
        return '%s %s: %s' % (self.rule, self.where, self.msg)

def load_known():
    known, fixed = [], []
    p = os.path.join(VERIF, 'known_findings.txt')
    if os.path.exists(p):
        for line in open(p):
            line = line.strip()
            if line.startswith('known:'):
                known.append(line[6:].strip())
            elif line.startswith('fixed:'):
                fixed.append(line[6:].strip())
    return known, fixed

class Report:
    def __init__(self, pid, tier, level):
        self.pid = pid
        self.tier = tier
        self.level = level
        self.t0 = time.time()
        self.violations = []
        self.rules = {}        # rule -> dict(instances, obligations, discharged, samples, desc)
        self.assumptions = []
        self.extra = {}
        self.units = []
        self.functions = set()
        self._distinct = set()      # distinct (rule, case description) pairs seen by instance()
        self._undescribed = 0
    def rule(self, rid, desc):
        r = self.rules.setdefault(rid, {'desc': desc, 'instances': 0, 'obligations': 0, 'discharged': 0, 'samples': []})
        return r
    def instance(self, rid, sample=None, n=1):
        r = self.rules[rid]
        r['instances'] += n
        if sample is not None:
            self._distinct.add((rid, sample))
        else:
            self._undescribed += n
        if sample is not None and len(r['samples']) < 6:
            r['samples'].append(sample)
    def oblig(self, rid, ok, n=1):
        r = self.rules[rid]
        r['obligations'] += n
        if ok:
            r['discharged'] += n
    def violate(self, v):
        self.violations.append(v)
    def floor(self, rid, minimum):
        r = self.rules.get(rid)
        got = r['instances'] if r else 0
        if got < minimum and not self.violations:
            # (when violations were already found they are the verdict: a rule that lost its anchor because of the same edit must not turn
            # a reportable defect into "analysis broken")
            raise AnalysisBroken('%s: rule %s found %d instance(s), expected at least %d (anchor vanished or pattern no longer recognised)'
                                 % (self.pid, rid, got, minimum))
    def finish(self, explanation, trusted_base, checker_cmd=None):
        known, _ = load_known()
        seed = int(os.environ.get('VERIF_SEED', '0') or 0)
        new_v = []
        known_hits = []
        for v in self.violations:
            tag = 'property=%s %s' % (self.pid, v.key())
            if any(k.startswith(tag) for k in known):
                known_hits.append(v)
            else:
                new_v.append(v)
        obligations = sum(r['obligations'] for r in self.rules.values())
        discharged = sum(r['discharged'] for r in self.rules.values())
        instances = sum(r['instances'] for r in self.rules.values())
        samples = []
        for rid, r in sorted(self.rules.items()):
            for s in r['samples'][:3]:
                samples.append({'rule': rid, 'instance': s})
        cov = {
            'explanation': explanation,
            'obligations': obligations,
            'discharged': discharged,
            'checker_cmd': checker_cmd or ('python3-vt -m nsa.check %s --tier %s' % (self.pid, self.tier)),
            'trusted_base': trusted_base,
            'evaluations': instances,
            'distinct_nontrivial': len(self._distinct),
            'rule': 'one evaluation = one rule instance (rule x site x calling context / path / precondition shape) that the analysis found in the IR of the current tree and judged; two instances are distinct when their descriptions (rule id, source position, context, abstract pre-state summary) differ, counted as the size of the set of descriptions; every instance carries at least one obligation, so none is trivial; instances recorded without a description are not counted as distinct (%d this run)' % self._undescribed,
            'samples': samples or [{'note': 'no instances'}],
            'rules': {rid: {k: r[k] for k in ('desc', 'instances', 'obligations', 'discharged')} for rid, r in sorted(self.rules.items())},
            'units_analysed': self.units,
            'functions_analysed': len(self.functions),
            'exhaustive': True,
        }
        cov.update(self.extra)
        level = self.level
        if level == 'proof' and (obligations == 0 or discharged != obligations):
            level = 'other'
        ev = {
            'property_id': self.pid, 'tier': self.tier, 'seed': seed, 'level': level,
            'coverage': cov, 'assumptions': self.assumptions,
            'wall_s': round(time.time() - self.t0, 3), 'violations': len(new_v),
        }
        evdir = os.environ.get('NSA_EVIDENCE_DIR') or os.path.join(VERIF, 'evidence')
        os.makedirs(evdir, exist_ok=True)
        with open(os.path.join(evdir, self.pid + '.json'), 'w') as f:
            json.dump(ev, f, indent=1, sort_keys=True)
        for v in known_hits:
            print('KNOWN-FINDING: property=%s %s at %s: %s' % (self.pid, v.key(), v.where, v.msg))
        for rid, r in sorted(self.rules.items()):
            print('%s %-8s instances=%-4d obligations=%-5d discharged=%-5d %s' % (self.pid, rid, r['instances'], r['obligations'], r['discharged'], r['desc']))
        if new_v:
            rdir = os.path.join(evdir, 'replay')
            os.makedirs(rdir, exist_ok=True)
            printed = set()
            for v in new_v:
                h = hashlib.sha256((v.key() + v.where).encode()).hexdigest()[:10]
                if (v.key(), v.where, v.msg) in printed:
                    continue          # the same finding reached through several contexts is reported once
                printed.add((v.key(), v.where, v.msg))
                path = os.path.join(rdir, '%s-%s.json' % (self.pid, h))
                with open(path, 'w') as f:
                    json.dump({'property': self.pid, 'rule': v.rule, 'where': v.where, 'site': v.site, 'message': v.msg, 'witness': v.witness}, f, indent=1, default=str)
                print('%s %s: %s' % (v.rule, v.where, v.msg))
                print('VIOLATION property=%s replay=%s' % (self.pid, path))
            return 1
        print('%s OK: %d rule instances, %d/%d obligations discharged (%.2fs)' % (self.pid, instances, discharged, obligations, time.time() - self.t0))
        return 0

"""The nsync_mu / nsync_cv protocol-word model on top of nsa.symex: word classes, opaque callees, entry points + contexts."""
from .symex import Engine, WordClass, Ptr, TOP, Record, is_expr, eval_tree
from .report import AnalysisBroken
from . import util

REP_COUNTS = range(0, 8)

class MuWord(WordClass):
    def __init__(self, K):
        self.W, self.SPIN, RL = K['MU_WLOCK'], K['MU_SPINLOCK'], K['MU_RLOCK']
        field = K['MU_RLOCK_FIELD'] & 0xFFFFFFFF
        self.shift = RL.bit_length() - 1
        if RL != 1 << self.shift or field != (0xFFFFFFFF >> self.shift) << self.shift or self.W >= RL or self.SPIN >= RL:
            raise AnalysisBroken('mutex word layout: reader count is not the top field of the word (MU_RLOCK=0x%x MU_RLOCK_FIELD=0x%x)' % (RL, field))
        self.RL = RL
        WordClass.__init__(self, 'mu', 'nsync_mu_s_.word', None, None, small_model=True, count_shift=self.shift, count_mask=0xFFFFFFFF >> self.shift)
    def universe(self, hold, spin):
        out = set()
        for low in range(0, self.RL):
            if spin == 1 and not low & self.SPIN:
                continue
            w = 1 if low & self.W else 0
            for c in REP_COUNTS:
                if w and c:
                    continue          # invariant: never a writer and readers
                if hold == 'W' and not w:
                    continue
                if hold == 'R' and (w or c == 0):
                    continue
                out.add(low | (c << self.shift))
        return frozenset(out)
    def lockbits(self, v):
        return (1 if v & self.W else 0, (v & 0xFFFFFFFF) >> self.shift, 1 if v & self.SPIN else 0)

class CvWord(WordClass):
    def __init__(self, K):
        self.SPIN, self.NE = K['CV_SPINLOCK'], K['CV_NON_EMPTY']
        WordClass.__init__(self, 'cv', 'nsync_cv_s_.word', None, None)
    def universe(self, hold, spin):
        m = self.SPIN | self.NE
        return frozenset(v for v in range(0, m + 1) if (v & ~m) == 0 and (spin != 1 or v & self.SPIN))
    def lockbits(self, v):
        return (0, 0, 1 if v & self.SPIN else 0)

def mu_class(K):
    return MuWord(K)

def cv_class(K):
    return CvWord(K)

# Library functions that the mutex analysis does not look into, each with the reason why that is sound.
OPAQUE = {
    'nsync_mu_semaphore_p': 'blocking primitive; does not touch any mutex/cv word (C12 analyses it)',
    'nsync_mu_semaphore_p_with_deadline': 'blocking primitive; does not touch any mutex/cv word (C12)',
    'nsync_mu_semaphore_v': 'wake primitive; does not touch any mutex/cv word (C12)',
    'nsync_mu_semaphore_init': 'initialises the futex word only',
    'nsync_waiter_new_': 'returns a pooled waiter owned by the caller; touches only free_waiters_mu (own analysis in C03/C13)',
    'nsync_waiter_free_': 'returns the waiter to the pool; touches only free_waiters_mu',
    'nsync_spin_delay_': 'delay loop / yield',
    'nsync_yield_': 'sched_yield',
    'nsync_sem_wait_with_cancel_': 'sleeps on the waiter semaphore; the only mutex it touches is cancel_note->note_mu, balanced (lock..unlock) on every path - checked by rule SEMWAIT-BALANCED',
    'nsync_time_now': 'clock', 'nsync_time_add': 'pure', 'nsync_time_sub': 'pure', 'nsync_time_cmp': 'pure',
    'nsync_time_ms': 'pure', 'nsync_time_us': 'pure', 'nsync_time_s_ns': 'pure', 'nsync_time_sleep': 'sleep',
}

class MuEngine(Engine):
    def __init__(self, mod, K, opaque=None, **kw):
        self.K = K
        self.muc = mu_class(K)
        self.cvc = cv_class(K)
        op = dict(OPAQUE)
        op.update(opaque or {})
        Engine.__init__(self, mod, [self.muc, self.cvc], opaque=op, tracked_fields=('waiter.l_type',), inline_filter=self._inline, **kw)
        self.wrappers = util.cas_wrappers(mod)
        self.opaque['nsync_waiter_new_'] = self._waiter_new
        # the outcome of a timed / cancellable sleep is one of a few codes: as a symbolic value it can be refined by `!= 0` tests and copied
        # into other variables (outcome = sem_outcome) without losing what the path already knows about it
        self.opaque['nsync_sem_wait_with_cancel_'] = self._sleep_outcome
        self.opaque['nsync_mu_semaphore_p_with_deadline'] = self._sleep_outcome
        self._relevant = self._compute_relevant()
        self._small = {}
        self.no_memo = set(self.wrappers)
    def _compute_relevant(self):
        """functions that (transitively) contain an atomic access to a tracked protocol word, or an atomic access through a
        bare pointer argument (generic helpers such as nsync_spin_test_and_set_ and the atm_cas_* wrappers)"""
        mod = self.mod
        direct = set()
        generic = {}          # function -> set of arg ids used as the address of an atomic access
        sites = util.atomic_sites(mod)
        for s in sites:
            ac = util.addr_class(mod, s.fn, s.addr)
            lf = util.last_field(ac)
            if lf in self.wc:
                direct.add(s.fn.name)
            elif lf is None:
                if ac['kind'] == 'arg':
                    generic.setdefault(s.fn.name, set()).add(ac['arg'])
                elif ac['kind'] not in ('global', 'alloca'):
                    direct.add(s.fn.name)
        for w in util.cas_wrappers(mod):
            generic.setdefault(w, set()).add('a0')
        # callers of generic helpers: relevant iff the pointer they pass can be a tracked word
        changed = True
        while changed:
            changed = False
            for f in mod.defined.values():
                for i in f.real_insts():
                    if i.op == 'call' and i.callee in generic:
                        for a in generic[i.callee]:
                            k = int(a[1:])
                            if k >= len(i.ops):
                                continue
                            ac = util.addr_class(mod, f, i.ops[k])
                            lf = util.last_field(ac)
                            if lf in self.wc:
                                if f.name not in direct:
                                    direct.add(f.name); changed = True
                            elif lf is None and ac['kind'] == 'arg':
                                if ac['arg'] not in generic.get(f.name, ()):
                                    generic.setdefault(f.name, set()).add(ac['arg']); changed = True
                            elif lf is None and ac['kind'] not in ('global', 'alloca'):
                                if f.name not in direct:
                                    direct.add(f.name); changed = True
        self.generic_atomic = generic
        cg = util.callgraph(mod)
        rel = set(direct)
        changed = True
        while changed:
            changed = False
            for f, cs in cg.items():
                if f not in rel and f not in self.opaque and any(c in rel and c not in self.opaque for c in cs):
                    rel.add(f); changed = True
        return rel
    def _is_small_pure(self, name, depth=0):
        if name in self._small:
            return self._small[name]
        f = self.mod.func(name)
        ok = False
        if f is not None and not f.decl and depth < 4:
            from .cfg import cfg_of
            n = sum(1 for _ in f.real_insts())
            if n <= 40 and not cfg_of(f).back_edges():
                ok = True
                for i in f.real_insts():
                    if i.op == 'call':
                        if i.callee is None or not (i.callee.startswith('llvm.') or self._is_small_pure(i.callee, depth + 1)):
                            ok = False; break
                    if i.op in ('cmpxchg', 'atomicrmw') or (i.op in ('load', 'store') and i.ord != 'na'):
                        ok = False; break
        self._small[name] = ok
        return ok
    def memoizable(self, callee):
        # tiny pure helpers are interpreted in place so that NULL-test refinements of their arguments reach the caller
        return callee not in self.no_memo and not self._is_small_pure(callee)

    HOME_FILES = ('internal/mu.c', 'internal/mu_wait.c', 'internal/cv.c')

    def _inline(self, callee):
        if callee in self._relevant or callee in self.generic_atomic or self._is_small_pure(callee):
            return True
        # a static helper extracted from the mutex / cv code (wake loop, release loop, ...) is part of the protocol even when it touches no
        # protocol word itself: interpret it in place so that its wake-ups, list operations and NULL tests are seen in the caller's state
        f = self.mod.func(callee)
        return f is not None and not f.decl and callee not in self.opaque and any((f.file or '').endswith(x) for x in self.HOME_FILES)
    QUEUE_FIELDS = {'mu': 'nsync_mu_s_.waiters', 'cv': 'nsync_cv_s_.waiters'}
    RING_FIELDS = ('nsync_dll_element_s_.next', 'nsync_dll_element_s_.prev')
    SLEEP_CALLS = ('nsync_mu_semaphore_p', 'nsync_mu_semaphore_p_with_deadline', 'nsync_sem_wait_with_cancel_')

    def queue_cell(self, wcname, instance):
        fld = self.QUEUE_FIELDS[wcname]
        idx = 1
        return Ptr(instance.base, instance.path + (('f', fld, idx),))

    def cell_tracked(self, st, p):
        if Engine.cell_tracked(self, st, p):
            return True
        # the waiter queue of a mutex / cv is private to the thread that holds that object's spinlock
        if p.path and p.path[-1][0] == 'f':
            for cn, fld in self.QUEUE_FIELDS.items():
                if p.path[-1][1] == fld:
                    inst = Ptr(p.base, p.path[:-1])
                    return st.ghost.get(('lk', cn, inst), ('?', 0))[1] == 1
        return False

    def on_ptr_load(self, st, f, inst, p, sp):
        if p.path and p.path[-1][0] == 'f':
            fld = p.path[-1][1]
            if fld in self.RING_FIELDS:
                st.nn.add(sp)         # ring invariant of dll.c (established by check C17): next/prev are never NULL
            elif fld in self.QUEUE_FIELDS.values() and self.cell_tracked(st, p):
                st.mem[p] = sp        # bind the cell, so that a later NULL test of the loaded value refines the cell too

    def on_transition(self, st, rec):
        wcn = rec.wc.name
        cell = Ptr(rec.instance.base, rec.instance.path + (('f', self.QUEUE_FIELDS[wcn], 1),))
        rec.queue = st.mem.get(cell, None)
        rec.queue_nonempty = isinstance(rec.queue, Ptr) and self.nonnull(st, rec.queue)
        rec.S_other = {k: v for k, v in st.S.items()}
        rec.flags = {k: v for k, v in st.ghost.items() if isinstance(k, tuple) and k and k[0] == 'flag'}
        if rec.new_spin != rec.spin:
            st.mem.pop(cell, None)
        if wcn == 'cv' and rec.new_spin == 1 and rec.spin == 0:
            st.ghost[('flag', 'cv_spin_taken', rec.instance)] = 1        # C13.R4: this thread has been inside the cv's spinlock
        if wcn == 'mu' and rec.pairs:
            LW = self.K['MU_LONG_WAIT']
            # C02.R7 / C14.R4: the thread that raises MU_LONG_WAIT (when it re-queues) is the one that must take it down again when it acquires
            rec.long_waiter = st.ghost.get(('flag', 'long_waiter', rec.instance)) == 1
            if rec.new_spin == 1 and rec.spin == 0 and any((n & LW) and not (e & LW) for e, n in rec.pairs):
                st.ghost[('flag', 'long_waiter', rec.instance)] = 1
            elif rec.new_hold in ('W', 'R') and rec.hold == 'none':
                st.ghost.pop(('flag', 'long_waiter', rec.instance), None)
        if wcn == 'mu' and rec.pairs:
            WT = self.K['MU_WAITING']
            # C13.R7: a thread that turns MU_WAITING on owes an enqueue before it drops the spinlock
            if rec.new_spin == 1 and rec.spin == 0 and any((n & WT) and not (e & WT) for e, n in rec.pairs):
                st.ghost[('flag', 'set_waiting', rec.instance)] = 1
            rec.set_waiting = st.ghost.get(('flag', 'set_waiting', rec.instance)) == 1
            if rec.new_spin == 0 and rec.spin == 1:
                st.ghost.pop(('flag', 'set_waiting', rec.instance), None)
        if wcn == 'mu':
            K = self.K
            inst = rec.instance
            # C13: final release of the mutex by this thread
            if (rec.new_hold, rec.new_spin) == ('none', 0) and (rec.hold in ('W', 'R') or st.ghost.get(('flag', 'gave_up_hold', inst))):
                st.ghost[('flag', 'released', inst)] = 1
            elif rec.new_hold in ('W', 'R'):
                st.ghost.pop(('flag', 'released', inst), None)
            if rec.hold in ('W', 'R') and rec.new_hold == 'none' and rec.new_spin == 1:
                st.ghost[('flag', 'gave_up_hold', inst)] = 1
            if rec.new_hold in ('W', 'R'):
                st.ghost.pop(('flag', 'gave_up_hold', inst), None)
            if rec.hold in ('W', 'R') and rec.new_hold == 'none' and inst == MU:
                st.ghost[('flag', 'cond_stale')] = 1
            # C02.R2: designated-waker debt
            if rec.pairs:
                sets = [n & K['MU_DESIG_WAKER'] and not e & K['MU_DESIG_WAKER'] for e, n in rec.pairs]
                if any(sets):
                    st.ghost[('flag', 'owes_desig', inst)] = 1
                elif rec.effect and rec.effect[2] == -1 and all(not n & K['MU_DESIG_WAKER'] for e, n in rec.pairs):
                    st.ghost.pop(('flag', 'owes_desig', inst), None)

    def rec_ctx(self, st):
        return (tuple(sorted(((k, v) for k, v in st.mem.items() if k.path and k.path[-1][0] == 'f' and k.path[-1][1] in self.QUEUE_FIELDS.values()), key=repr)),
                tuple(sorted((k for k in st.ghost if isinstance(k, tuple) and k and k[0] == 'flag'), key=repr)))

    def on_enter(self, st, inst, callee, args):
        if callee == self.LOCK_SLOW and len(args) >= 3:
            st.ghost[('flag', 'ls_clear')] = args[2] if isinstance(args[2], int) else -1

    def on_return(self, st, fn, val):
        st.ghost.pop(('flag', 'slept', fn.name), None)
        if fn.name == self.LOCK_SLOW:
            st.ghost.pop(('flag', 'ls_clear'), None)

    def on_indirect_call(self, st, f, inst, cv, args):
        if isinstance(cv, Ptr) and cv.base == 'client:condition':
            sym = 'cond:%s:%s' % (f.fn.name, inst.id)
            self.kill_sym(st, sym)
            st.S[sym] = frozenset((0, 1))
            v = ('e', sym, ('s',))
            st.ghost[('cond_last',)] = v
            st.ghost.pop(('flag', 'cond_stale'), None)
            f.regs[inst.id] = v
            f.idx += 1
            return [st]
        return None

    LOCK_SLOW = 'nsync_mu_lock_slow_'
    CALLER_ONLY_GHOST = (('cond_last',),)

    def _ghost_framed(self, k, bases):
        # the designated-waker debt is discharged by a semaphore post wherever it happens (also inside a helper that is not given the
        # mutex pointer, e.g. an extracted wake loop): it always travels into the callee and back
        if isinstance(k, tuple) and len(k) == 3 and k[0] == 'flag' and k[1] == 'owes_desig':
            return False
        if k == ('flag', 'woke_waiter'):
            return False
        return Engine._ghost_framed(self, k, bases)

    def atomic_load_other(self, st, f, inst, p):
        # a thread polling the waiting flag of its own waiter record has queued itself: from here on it "has waited"
        if isinstance(p, Ptr) and p.path and p.path[-1][0] == 'f' and p.path[-1][1] == 'nsync_waiter_s.waiting' \
                and p.base.startswith(self.PRIVATE_BASES):
            st.ghost[('flag', 'slept', f.fn.name)] = 1
        return TOP

    def on_store(self, st, f, inst, p, v):
        # C04.R1: the thread stores a pointer to (the link of) its own waiter record as the head of a cv queue: it is now queued on that cv
        if isinstance(p, Ptr) and p.path and p.path[-1][0] == 'f' and p.path[-1][1] == self.QUEUE_FIELDS['cv'] and isinstance(v, Ptr) \
                and v.base.startswith(('waiter:', 'arg:nw', 'arg:w')):
            st.ghost[('flag', 'cv_enq')] = 1

    def on_call(self, st, inst, callee, args):
        if callee == 'nsync_mu_semaphore_v':
            for k in [k for k in st.ghost if isinstance(k, tuple) and k[:2] == ('flag', 'owes_desig')]:
                del st.ghost[k]
            if (self.entry_name or '').startswith(('nsync_mu_unlock', 'nsync_mu_runlock')):
                st.ghost[('flag', 'woke_waiter')] = 1      # C13.R2: from here on a woken waiter may run, acquire, release and free the mutex
        return None

    def note_access(self, st, inst, p, kind):
        if isinstance(p, Ptr) and p.base == MU.base and st.ghost.get(('flag', 'woke_waiter')):
            self.record(Record('access_after_wake', inst, st, ptr=p, access=kind, entry=self.entry_name),
                        ('aaw', inst.fn.name, inst.id, st.stack()))
        if isinstance(p, Ptr):
            for k in st.ghost:
                if isinstance(k, tuple) and k[:2] == ('flag', 'released') and k[2].base == p.base and p.path[:len(k[2].path)] == k[2].path:
                    self.record(Record('late_access', inst, st, ptr=p, access=kind, entry=self.entry_name, instance=k[2]),
                                ('late', inst.fn.name, inst.id, st.stack()))

    @staticmethod
    def _sleep_outcome(eng, st, f, inst, args):
        codes = [0, eng.K['ETIMEDOUT']] + ([eng.K['ECANCELED']] if inst.callee == 'nsync_sem_wait_with_cancel_' else [])
        sym = 'sleep:%s:%s:%d' % (f.fn.name, inst.id, f.depth)
        eng.kill_sym(st, sym)
        st.S[sym] = frozenset(codes)
        f.regs[inst.id] = ('e', sym, ('s',))
        f.idx += 1
        return [st]

    @staticmethod
    def _waiter_new(eng, st, f, inst, args):
        p = Ptr('waiter:%s:%s' % (f.fn.name, inst.id), ())
        # C19.R4: what the thread knows about its condition when it asks for a waiter record
        cl = st.ghost.get(('cond_last',))
        vals = sorted(set(int(bool(eval_tree(cl[2], d))) for d in st.S.get(cl[1], ()))) if is_expr(cl) else (None if cl is None else [int(bool(cl))] if isinstance(cl, int) else None)
        eng.record(Record('waiter_new', inst, st, cond_vals=vals, entry=eng.entry_name), ('waiter_new', inst.fn.name, inst.id, st.stack(), repr(vals)))
        st.nn.add(p)
        f.regs[inst.id] = p
        f.idx += 1
        return [st]

MU = Ptr('arg:mu', ())
CV = Ptr('arg:cv', ())
WAITER = Ptr('arg:w', ())

def fptr(name):
    return Ptr('func:' + name, ())

def lk(instance=MU, cls='mu'):
    return ('lk', cls, instance)

def entries(mod, K, full=False):
    """(label, function, args, ghost, expectation at exit) for every way the library changes a mutex word."""
    WT = Ptr('glob:' + _table_global(mod, 'nsync_writer_type_'), ())
    RT = Ptr('glob:' + _table_global(mod, 'nsync_reader_type_'), ())
    DESIG = K['MU_DESIG_WAKER']
    E = []
    def add(label, fn, args, hold, expect, nn=()):
        E.append({'label': label, 'fn': fn, 'args': args, 'ghost': {lk(): (hold, 0)}, 'expect': expect, 'nn': set(nn) | {MU}})
    add('nsync_mu_lock', 'nsync_mu_lock', [MU], 'none', {'hold': 'W'})
    add('nsync_mu_rlock', 'nsync_mu_rlock', [MU], 'none', {'hold': 'R'})
    add('nsync_mu_trylock', 'nsync_mu_trylock', [MU], 'none', {'iff_ret_nonzero': 'W'})
    add('nsync_mu_rtrylock', 'nsync_mu_rtrylock', [MU], 'none', {'iff_ret_nonzero': 'R'})
    add('nsync_mu_unlock', 'nsync_mu_unlock', [MU], 'W', {'hold': 'none'})
    add('nsync_mu_runlock', 'nsync_mu_runlock', [MU], 'R', {'hold': 'none'})
    add('nsync_mu_unlock_without_wakeup', 'nsync_mu_unlock_without_wakeup', [MU], 'W', {'hold': 'none'})
    for clear in (0, DESIG):
        for mode, T in (('W', WT), ('R', RT)):
            add('nsync_mu_lock_slow_[clear=%d,%s]' % (clear, mode), 'nsync_mu_lock_slow_', [MU, WAITER, clear, T], 'none', {'hold': mode}, nn=[WAITER])
            E[-1]['ghost'][('flag', 'ls_clear')] = clear
    for mode, T in (('W', WT), ('R', RT)):
        add('nsync_mu_unlock_slow_[%s]' % mode, 'nsync_mu_unlock_slow_', [MU, T], mode, {'hold': 'none'})
    COND = Ptr('client:condition', ())
    NOTE = Ptr('arg:cancel_note', ())
    for mode in ('W', 'R'):
        for cond in (0, COND):
            for note in ((NOTE, 0) if full else (NOTE,)):
                add('nsync_mu_wait_with_deadline[%s,cond=%s,note=%s]' % (mode, 'NULL' if cond == 0 else 'f', 'NULL' if note == 0 else 'n'),
                    'nsync_mu_wait_with_deadline', [MU, cond, TOP, TOP, TOP, TOP, note], mode, {'hold': mode}, nn=[COND, NOTE])
        add('nsync_mu_wait[%s]' % mode, 'nsync_mu_wait', [MU, COND, TOP, TOP], mode, {'hold': mode}, nn=[COND])
        for note in ((NOTE, 0) if full else (NOTE,)):
            add('nsync_cv_wait_with_deadline[%s,note=%s]' % (mode, 'NULL' if note == 0 else 'n'),
                'nsync_cv_wait_with_deadline', [CV, MU, TOP, TOP, note], mode, {'hold': mode}, nn=[CV, NOTE])
        add('nsync_cv_wait[%s]' % mode, 'nsync_cv_wait', [CV, MU], mode, {'hold': mode}, nn=[CV])
    for (l, u, mode) in (('nsync_mu_lock', 'nsync_mu_unlock', 'W'), ('nsync_mu_rlock', 'nsync_mu_runlock', 'R')):
        add('nsync_cv_wait_with_deadline_generic[%s/%s]' % (l, u), 'nsync_cv_wait_with_deadline_generic',
            [CV, MU, fptr(l), fptr(u), TOP, TOP, 0], mode, {'hold': mode}, nn=[CV])
        if full:
            add('nsync_cv_wait_with_deadline_generic[%s/%s,note=n]' % (l, u), 'nsync_cv_wait_with_deadline_generic',
                [CV, MU, fptr(l), fptr(u), TOP, TOP, NOTE], mode, {'hold': mode}, nn=[CV, NOTE])
        add('nsync_wait_n[%s/%s]' % (l, u), 'nsync_wait_n', [MU, fptr(l), fptr(u), TOP, TOP, TOP, Ptr('arg:waitable', ())], mode, {'hold': mode},
            nn=[Ptr('arg:waitable', ())])
    E.append({'label': 'nsync_cv_wait_with_deadline_generic[client lock]', 'fn': 'nsync_cv_wait_with_deadline_generic',
              'args': [CV, Ptr('arg:client_mu', ()), Ptr('client:lock', ()), Ptr('client:unlock', ()), TOP, TOP, 0], 'ghost': {}, 'expect': {},
              'nn': {CV, Ptr('client:lock', ()), Ptr('client:unlock', ()), Ptr('arg:client_mu', ())}})
    E.append({'label': 'nsync_cv_signal', 'fn': 'nsync_cv_signal', 'args': [CV], 'ghost': {}, 'expect': {}, 'nn': {CV}})
    E.append({'label': 'nsync_cv_broadcast', 'fn': 'nsync_cv_broadcast', 'args': [CV], 'ghost': {}, 'expect': {}, 'nn': {CV}})
    # the cv's nsync_wait_n interface: functions stored in the nsync_cv_waitable_funcs table
    g = mod.globals.get('nsync_cv_waitable_funcs')
    if not g or g.get('init', {}).get('k') != 'agg':
        raise AnalysisBroken('nsync_cv_waitable_funcs table not found')
    NW = Ptr('arg:nw', ())
    for k, role in enumerate(('ready_time', 'enqueue', 'dequeue')):
        fnref = g['init']['elts'][k]
        if fnref.get('k') != 'func':
            raise AnalysisBroken('nsync_cv_waitable_funcs.%s is not a function' % role)
        E.append({'label': 'cv waitable %s (%s)' % (role, fnref['n']), 'fn': fnref['n'], 'args': [CV, NW], 'ghost': {}, 'expect': {}, 'nn': {CV, NW}})
    BUF = Ptr('arg:buf', ())
    for hold in ('none', 'W', 'R'):
        for fn in ('nsync_mu_debug_state', 'nsync_mu_debug_state_and_waiters'):
            add('%s[%s]' % (fn, hold), fn, [MU, BUF, TOP], hold, {'hold': hold}, nn=[BUF])
        add('nsync_mu_debugger[%s]' % hold, 'nsync_mu_debugger', [MU], hold, {'hold': hold})
    for fn in ('nsync_cv_debug_state', 'nsync_cv_debug_state_and_waiters'):
        E.append({'label': fn, 'fn': fn, 'args': [CV, BUF, TOP], 'ghost': {}, 'expect': {}, 'nn': {CV, BUF}})
    E.append({'label': 'nsync_cv_debugger', 'fn': 'nsync_cv_debugger', 'args': [CV], 'ghost': {}, 'expect': {}, 'nn': {CV}})
    add('nsync_mu_assert_held', 'nsync_mu_assert_held', [MU], 'W', {'hold': 'W'})
    add('nsync_mu_rassert_held', 'nsync_mu_rassert_held', [MU], 'R', {'hold': 'R'})
    add('nsync_mu_is_reader[W]', 'nsync_mu_is_reader', [MU], 'W', {'hold': 'W'})
    add('nsync_mu_is_reader[R]', 'nsync_mu_is_reader', [MU], 'R', {'hold': 'R'})
    return [e for e in E if mod.func(e['fn']) is not None and not mod.func(e['fn']).decl], [e['fn'] for e in E if mod.func(e['fn']) is None or mod.func(e['fn']).decl]

def _table_global(mod, ptrname):
    g = mod.globals.get(ptrname)
    if not g or g.get('init', {}).get('k') != 'global':
        raise AnalysisBroken('lock_type table pointer %s not found or not initialised with the address of a table' % ptrname)
    return g['init']['n']

_RESULT = {}

def _full(ctx):
    return getattr(ctx, 'tier', 'quick') == 'thorough'

def _pickle_path(ctx):
    import os, hashlib
    src = b''.join(open(os.path.join(os.path.dirname(os.path.abspath(__file__)), f), 'rb').read() for f in ('symex.py', 'mumodel.py', 'util.py', 'ir.py', 'cfg.py'))
    return os.path.join(ctx.facts, 'mueng-%s%s.pkl' % (hashlib.sha256(src).hexdigest()[:12], '-full' if _full(ctx) else ''))

def try_load(ctx):
    """Load the cached interpreter result (keyed by the IR facts directory = hash of the tree, and by the engine sources) together with the
    module object it refers to.  Called by Ctx.mod('C') BEFORE any module is handed out, so that the records of the engine and the rules
    always talk about the very same instruction objects (identity comparisons are used by several rules)."""
    import os, pickle, sys
    key = (ctx.facts, MuEngine.__name__)
    if key in _RESULT:
        return _RESULT[key][0].mod
    pk = _pickle_path(ctx)
    if not os.path.exists(pk):
        return None
    sys.setrecursionlimit(200000)
    try:
        with open(pk, 'rb') as f:
            eng, runs = pickle.load(f)
    except Exception:
        return None
    _RESULT[key] = (eng, runs)
    return eng.mod

def analyse(ctx, engine_cls=MuEngine):
    """run every entry; returns (engine, list of (entry, exits))"""
    key = (ctx.facts, engine_cls.__name__)
    mod = ctx.mod('C')          # loads the cached result, if any, and pins the module object
    if key in _RESULT:
        if _RESULT[key][0].mod is not mod:
            raise AnalysisBroken('internal: cached interpreter result refers to a different module object')
        return _RESULT[key]
    import os, pickle, sys
    sys.setrecursionlimit(200000)
    K = ctx.probe
    eng = engine_cls(mod, K)
    ents, missing = entries(mod, K, full=_full(ctx))
    if missing:
        raise AnalysisBroken('mutex entry point(s) not found in the library IR: %s' % ', '.join(sorted(set(missing))))
    runs = []
    for e in ents:
        exits = eng.run(e['fn'], e['args'], ghost=e['ghost'], nn=e['nn'], label=e['label'])
        runs.append((e, exits))
    _RESULT[key] = (eng, runs)
    if engine_cls is MuEngine:
        try:
            pk = _pickle_path(ctx)
            tmp = pk + '.tmp.%d' % os.getpid()
            with open(tmp, 'wb') as f:
                pickle.dump((eng, runs), f, protocol=pickle.HIGHEST_PROTOCOL)
            os.replace(tmp, pk)
        except Exception:
            pass
    return eng, runs

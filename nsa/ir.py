"""In-memory model of the facts produced by tools/irfacts."""
import json, os, re

class Inst:
    __slots__ = ('id', 'op', 'ty', 'ops', 'loc', 'x', 'block', 'fn', 'idx')
    def __init__(self, d, block, fn, idx):
        self.id = d['id']
        self.op = d['op']
        self.ty = d['ty']
        self.ops = d.get('ops', [])
        self.loc = d.get('loc')
        self.x = d
        self.block = block
        self.fn = fn
        self.idx = idx
    @property
    def callee(self):
        return self.x.get('callee')
    @property
    def ord(self):
        return self.x.get('ord')
    @property
    def line(self):
        return self.loc[1] if self.loc else 0
    @property
    def file(self):
        return self.loc[0] if self.loc else (self.fn.file or '?')
    def where(self):
        """file:line of the outermost (non-inlined) position plus the function"""
        loc = self.loc
        if not loc:
            return '%s:%s (%s)' % (rel(self.fn.file), self.fn.line, self.fn.name)
        chain = [loc]
        while len(chain[-1]) > 4 and chain[-1][4]:
            chain.append(chain[-1][4])
        s = '%s:%d' % (rel(chain[0][0]), chain[0][1])
        if len(chain) > 1:
            s += ' (inlined at %s:%d)' % (rel(chain[-1][0]), chain[-1][1])
        return s + ' in ' + self.fn.name
    def srcpos(self):
        """(file, line, col) of the innermost location: for macro-expanded atomics this is the expansion site"""
        loc = self.loc
        if not loc:
            return None
        return (rel(loc[0]), loc[1], loc[2])
    def outerpos(self):
        loc = self.loc
        if not loc:
            return None
        while len(loc) > 4 and loc[4]:
            loc = loc[4]
        return (rel(loc[0]), loc[1], loc[2])
    def __repr__(self):
        return '<%s %s %s>' % (self.id, self.op, self.where())

def rel(path):
    if not path:
        return '?'
    for pre in ('/repo/',):
        if path.startswith(pre):
            return path[len(pre):]
    m = re.search(r'/(internal|platform|public)/', path)
    if m:
        return path[m.start() + 1:]
    return path

class Block:
    __slots__ = ('id', 'insts', 'succ', 'preds', 'fn', 'index')
    def __init__(self, d, fn, index):
        self.id = d['id']
        self.fn = fn
        self.index = index
        self.succ = d['succ']
        self.preds = []
        self.insts = [Inst(x, self, fn, k) for k, x in enumerate(d['insts'])]
    @property
    def term(self):
        return self.insts[-1]
    def phis(self):
        return [i for i in self.insts if i.op == 'phi']
    def __repr__(self):
        return '<%s:%s>' % (self.fn.name, self.id)

class Function:
    def __init__(self, name, d, mod):
        self.name = name
        self.mod = mod
        self.decl = d['decl']
        self.internal = d['internal']
        self.ret = d['ret']
        self.vararg = d.get('vararg', False)
        self.args = d['args']
        self.file = d.get('file')
        self.line = d.get('line', 0)
        self.srcname = d.get('srcname', name)
        self.fattrs = tuple(d.get('fattrs', ()))      # promises to the optimiser: 'readnone' (const), 'readonly' (pure), 'noreturn'
        self.rattrs = tuple(d.get('rattrs', ()))      # 'nonnull' (returns_nonnull), 'noalias' (malloc)
        self.blocks = [Block(b, self, k) for k, b in enumerate(d.get('blocks', []))]
        self.bmap = {b.id: b for b in self.blocks}
        self.imap = {}
        self.varname = {}
        for b in self.blocks:
            for s in b.succ:
                self.bmap[s].preds.append(b.id)
            for i in b.insts:
                self.imap[i.id] = i
                if i.op == 'dbg' and isinstance(i.x.get('val'), str):
                    self.varname.setdefault(i.x['val'], i.x['var'])
    @property
    def entry(self):
        return self.blocks[0]
    def insts(self):
        for b in self.blocks:
            for i in b.insts:
                yield i
    def real_insts(self):
        for b in self.blocks:
            for i in b.insts:
                if i.op != 'dbg':
                    yield i
    def name_of(self, ref):
        if isinstance(ref, str):
            return self.varname.get(ref, ref)
        return cstr(ref)
    def __repr__(self):
        return '<fn %s>' % self.name

def is_int(ref):
    return isinstance(ref, dict) and ref.get('k') == 'int'
def is_null(ref):
    return isinstance(ref, dict) and ref.get('k') == 'null'
def ival(ref):
    return ref['v']
def uval(ref):
    return ref['v'] & ((1 << ref['w']) - 1)
def cstr(ref):
    if isinstance(ref, str):
        return ref
    k = ref.get('k')
    if k == 'int':
        return str(ref['v'])
    if k in ('global', 'func'):
        return '@' + ref['n']
    return k

def strip_casts_const(ref):
    """strip constant-expression casts/zero GEPs from a constant ref"""
    while isinstance(ref, dict) and ref.get('k') == 'cexpr' and ref['op'] in ('bitcast', 'addrspacecast'):
        ref = ref['ops'][0]
    return ref

class Module:
    def __init__(self, path):
        with open(path) as f:
            d = json.load(f)
        self.path = path
        self.raw_structs = d['structs']
        self.globals = d['globals']
        self.functions = {n: Function(n, fd, self) for n, fd in d['functions'].items()}
        self.defined = {n: f for n, f in self.functions.items() if not f.decl}
        # field names: LLVM struct name -> {offset: member name}
        self._di = {}
        for t in d['ditypes']:
            for n in t['names']:
                self._di.setdefault(n, []).append(t)
        self._fieldcache = {}
        self._inline_load_store_wrappers()
    def _inline_load_store_wrappers(self):
        """atomic.h may implement ATM_LOAD* / ATM_STORE* as tiny static inline functions (as it does for the CAS family).  A call to such a wrapper
        is rewritten, in this model, into the atomic load / store it performs on its pointer argument, with the wrapper's memory order and the
        call's source position - so that every rule sees the same instruction whether the macro expands to a builtin or to a helper call."""
        wrappers = {}
        for f in self.defined.values():
            real = [i for i in f.real_insts() if i.op not in ('bitcast', 'br')]
            mem = [i for i in real if i.op in ('load', 'store', 'cmpxchg', 'atomicrmw', 'call', 'fence', 'alloca')]
            if len(mem) != 1 or len(f.blocks) != 1:
                continue
            m = mem[0]
            def root(ref):
                while isinstance(ref, str) and ref in f.imap and f.imap[ref].op in ('bitcast', 'addrspacecast'):
                    ref = f.imap[ref].ops[0]
                return ref
            rets = [i for i in real if i.op == 'ret']
            if m.op == 'load' and m.x.get('ord', 'na') != 'na' and len(f.args) == 1 and root(m.ops[0]) == 'a0' and rets and rets[0].ops and root(rets[0].ops[0]) == m.id \
                    and all(i.op in ('load', 'ret') for i in real):
                wrappers[f.name] = ('load', m.x['ord'], m.ty)
            elif m.op == 'store' and m.x.get('ord', 'na') != 'na' and len(f.args) == 2 and root(m.ops[1]) == 'a0' and root(m.ops[0]) == 'a1' \
                    and all(i.op in ('store', 'ret') for i in real):
                wrappers[f.name] = ('store', m.x['ord'], 'void')
        self.load_store_wrappers = wrappers
        if not wrappers:
            return
        for f in self.defined.values():
            if f.name in wrappers:
                continue
            for i in f.real_insts():
                if i.op == 'call' and i.x.get('callee') in wrappers:
                    kind, order, ty = wrappers[i.x['callee']]
                    x = dict(i.x)
                    x['via'] = x.pop('callee')
                    x['ord'] = order
                    if kind == 'load':
                        x['op'] = 'load'
                        i.op, i.ops, i.ty = 'load', [i.ops[0]], ty
                    else:
                        x['op'] = 'store'
                        i.op, i.ops, i.ty = 'store', [i.ops[1], i.ops[0]], 'void'
                    x['ops'] = i.ops
                    i.x = x
    def func(self, name):
        return self.functions.get(name)
    def struct_base(self, sname):
        """'struct.waiter' / 'struct.waiter.12' / 'class.std::atomic' -> 'waiter'"""
        n = sname
        for pre in ('struct.', 'union.', 'class.'):
            if n.startswith(pre):
                n = n[len(pre):]
                break
        m = re.match(r'^(.*?)(\.\d+)$', n)
        if m and m.group(1) in self._di:
            n = m.group(1)
        return n
    def field_name(self, sname, findex):
        """name of element #findex of LLVM struct sname, looked up in the debug info by byte offset"""
        key = (sname, findex)
        if key in self._fieldcache:
            return self._fieldcache[key]
        base = self.struct_base(sname)
        rs = self.raw_structs.get(sname)
        name = None
        if rs and findex < len(rs['elts']):
            off = rs['elts'][findex]['off']
            for t in self._di.get(base, []):
                if t['size'] and rs['size'] and t['size'] != rs['size']:
                    continue
                for m in t['members']:
                    if m['off'] == off:
                        name = m['name']
                        break
                if name:
                    break
        res = '%s.%s' % (base, name if name is not None else '#%d' % findex)
        self._fieldcache[key] = res
        return res
    def gep_fields(self, inst):
        """list of path steps of a GEP instruction: ('f', 'struct.field') / ('i', ref, elemsize) """
        out = []
        for k, st in enumerate(inst.x['path']):
            if 's' in st:
                out.append(('f', self.field_name(st['s'], st['f'])))
            elif 'p' in st:
                if not (is_int(st['i']) and ival(st['i']) == 0):
                    out.append(('i', st['i'], st['p']))
            elif 'a' in st:
                out.append(('i', st['i'], st['a']))
            else:
                out.append(('?',))
        return out
    def global_init(self, name):
        g = self.globals.get(name)
        return g.get('init') if g else None

def load_cfg(factsdir, cfg):
    return Module(os.path.join(factsdir, cfg + '.json'))

def load_probe(factsdir):
    with open(os.path.join(factsdir, 'probe.json')) as f:
        d = json.load(f)
    out = {}
    for n, g in d['globals'].items():
        if n.startswith('probe_') and g.get('init', {}).get('k') == 'int':
            out[n[6:]] = g['init']['v'] & 0xFFFFFFFFFFFFFFFF
    return out

"""Shared IR queries: def-use, address classification, atomic sites (with CAS-wrapper resolution), callgraph."""
from . import ir as IR

PURE_PTR_OPS = ('bitcast', 'getelementptr', 'addrspacecast')

def users_map(fn):
    um = {}
    for i in fn.real_insts():
        if i.op == 'phi':
            refs = [p[0] for p in i.ops]
        else:
            refs = list(i.ops)
            cv = i.x.get('cv')
            if cv is not None:
                refs.append(cv)
        for r in refs:
            if isinstance(r, str):
                um.setdefault(r, []).append(i)
    return um

def derived_set(fn, root, through=PURE_PTR_OPS + ('phi',)):
    """SSA ids computed from root only through address arithmetic (and optionally phi)"""
    um = users_map(fn)
    out = {root}
    work = [root]
    while work:
        r = work.pop()
        for u in um.get(r, []):
            if u.op in through and u.id not in out:
                out.add(u.id)
                work.append(u.id)
    return out

def strip_ptr(fn, ref):
    """follow bitcasts back to the defining ref"""
    while isinstance(ref, str) and ref in fn.imap and fn.imap[ref].op in ('bitcast', 'addrspacecast'):
        ref = fn.imap[ref].ops[0]
    return ref

def addr_class(mod, fn, ref, depth=0):
    """Classify an address operand.  Returns dict(kind=..., field='struct.field' | None, base=ref, path=[fields...])"""
    path = []
    cur = ref
    while True:
        if isinstance(cur, dict):
            k = cur.get('k')
            if k == 'global':
                return {'kind': 'global', 'name': cur['n'], 'path': path, 'field': path[-1] if path else None, 'base': cur}
            if k == 'cexpr':
                if cur['op'] in ('bitcast', 'addrspacecast'):
                    cur = cur['ops'][0]; continue
                if cur['op'] == 'getelementptr':
                    path.insert(0, '+%s' % cur.get('coff'))
                    cur = cur['ops'][0]; continue
            if k == 'null':
                return {'kind': 'null', 'path': path, 'field': None, 'base': cur}
            return {'kind': 'const', 'path': path, 'field': None, 'base': cur}
        if cur.startswith('a'):
            return {'kind': 'arg', 'arg': cur, 'path': path, 'field': path[-1] if path and '.' in path[-1] else None, 'base': cur}
        inst = fn.imap[cur]
        if inst.op in ('bitcast', 'addrspacecast'):
            cur = inst.ops[0]; continue
        if inst.op == 'getelementptr':
            steps = mod.gep_fields(inst)
            names = []
            for s in steps:
                if s[0] == 'f':
                    names.append(s[1])
                elif s[0] == 'i':
                    names.append('[]')
                else:
                    names.append('?')
            path = names + path
            cur = inst.ops[0]; continue
        kind = {'alloca': 'alloca', 'load': 'load', 'call': 'call', 'phi': 'phi', 'select': 'select'}.get(inst.op, 'other')
        fld = None
        for p in reversed(path):
            if '.' in p and not p.startswith('+'):
                fld = p
                break
        return {'kind': kind, 'inst': inst, 'path': path, 'field': fld, 'base': cur}

def last_field(ac):
    for p in reversed(ac['path']):
        if p != '[]' and not p.startswith('+') and p != '?':
            return p
    return None

class AtomicSite:
    """one atomic access as written in the source: a load/store/cmpxchg/rmw instruction, or a call to a CAS wrapper"""
    def __init__(self, kind, ord_, ford, inst, fn, addr, ops, via=None):
        self.kind = kind      # 'load' | 'store' | 'cas' | 'rmw'
        self.ord = ord_
        self.ford = ford
        self.inst = inst      # instruction in fn (the call for wrapper sites)
        self.fn = fn
        self.addr = addr      # address operand ref, in fn
        self.ops = ops        # value operands: load: [], store: [val], cas: [expected, new]
        self.via = via        # wrapper function name or None
    def where(self):
        return self.inst.where()
    def __repr__(self):
        return '<%s %s %s>' % (self.kind, self.ord, self.where())

CXX_ORDERS = {0: 'relaxed', 1: 'acquire', 2: 'acquire', 3: 'release', 4: 'acq_rel', 5: 'seq_cst'}   # std::memory_order (consume counted as acquire)

def cxx_atomic_call(mod, inst):
    """a call to std::atomic_{load,store,compare_exchange_*}_explicit<T> with constant memory orders (the c++11 atomic.h flavour
    compiled without inlining): returns (kind, order, failure order, addr, value operands) or None"""
    if inst.op != 'call' or not inst.callee:
        return None
    f = mod.func(inst.callee)
    if f is None:
        return None
    n = f.srcname or ''
    def order(ref):
        return CXX_ORDERS.get(IR.ival(ref)) if IR.is_int(ref) else None
    if n.startswith('atomic_load_explicit') and len(inst.ops) == 2:
        return ('load', order(inst.ops[1]), None, inst.ops[0], [])
    if n.startswith('atomic_store_explicit') and len(inst.ops) == 3:
        return ('store', order(inst.ops[2]), None, inst.ops[0], [inst.ops[1]])
    if (n.startswith('atomic_compare_exchange_strong_explicit') or n.startswith('atomic_compare_exchange_weak_explicit')) and len(inst.ops) == 5:
        return ('cas', order(inst.ops[3]), order(inst.ops[4]), inst.ops[0], [inst.ops[1], inst.ops[2]])
    if n.startswith('atomic_fetch_') or n.startswith('atomic_exchange'):
        return ('rmw', order(inst.ops[-1]), None, inst.ops[0], inst.ops[1:-1])
    return None

def cas_wrappers(mod):
    """internal functions whose body is one cmpxchg on their first argument with their 2nd/3rd arguments
    (atm_cas_*_u32_ in atomic.h).  name -> (ord, ford)"""
    out = {}
    for f in mod.defined.values():
        cx = [i for i in f.real_insts() if i.op == 'cmpxchg']
        others = [i for i in f.real_insts() if i.op in ('load', 'store', 'atomicrmw', 'call', 'fence')]
        if len(cx) == 1 and not others and len(f.args) == 3:
            c = cx[0]
            if c.ops[0] == 'a0' and c.ops[1] == 'a1' and c.ops[2] == 'a2':
                out[f.name] = (c.x['ord'], c.x['ford'])
        elif not cx and len(f.args) == 3:
            # c++11 flavour: one call to std::atomic_compare_exchange_strong_explicit on the first argument
            calls = [i for i in f.real_insts() if i.op == 'call' and not (i.callee or '').startswith('llvm.')]
            if len(calls) == 1:
                ca = cxx_atomic_call(mod, calls[0])
                if ca and ca[0] == 'cas' and strip_ptr(f, ca[3]) == 'a0' and ca[1]:
                    out[f.name] = (ca[1], ca[2])
    return out

def atomic_sites(mod):
    wr = cas_wrappers(mod)
    sites = []
    lsw = getattr(mod, 'load_store_wrappers', {})
    for f in mod.defined.values():
        if f.name in wr or f.name in lsw:
            continue
        for i in f.real_insts():
            if i.op == 'load' and i.ord != 'na':
                sites.append(AtomicSite('load', i.ord, None, i, f, i.ops[0], []))
            elif i.op == 'store' and i.ord != 'na':
                sites.append(AtomicSite('store', i.ord, None, i, f, i.ops[1], [i.ops[0]]))
            elif i.op == 'cmpxchg':
                sites.append(AtomicSite('cas', i.x['ord'], i.x['ford'], i, f, i.ops[0], [i.ops[1], i.ops[2]]))
            elif i.op == 'atomicrmw':
                sites.append(AtomicSite('rmw', i.ord, None, i, f, i.ops[0], [i.ops[1]]))
            elif i.op == 'call' and i.callee in wr:
                o, fo = wr[i.callee]
                sites.append(AtomicSite('cas', o, fo, i, f, i.ops[0], [i.ops[1], i.ops[2]], via=i.callee))
            elif i.op == 'call':
                ca = cxx_atomic_call(mod, i)
                if ca:
                    sites.append(AtomicSite(ca[0], ca[1] or '?', ca[2], i, f, ca[3], ca[4], via=i.callee))
    return sites

def callgraph(mod):
    cg = {}
    for f in mod.defined.values():
        s = set()
        for i in f.real_insts():
            if i.op in ('call', 'invoke') and i.callee:
                s.add(i.callee)
        cg[f.name] = s
    return cg

def reach(cg, roots):
    seen = set()
    work = list(roots)
    while work:
        n = work.pop()
        if n in seen:
            continue
        seen.add(n)
        work.extend(cg.get(n, ()))
    return seen

def is_assert_trap(inst):
    """the ASSERT macro: store volatile i32 0, i32* null"""
    return inst.op == 'store' and inst.x.get('vol') and IR.is_null(inst.ops[1])

def noreturn_functions(mod):
    """functions that cannot return: every path ends in abort/unreachable/noreturn call (nsync_panic_)"""
    nr = {'abort', 'exit', '_exit', '__assert_fail', '_ZSt9terminatev'}
    changed = True
    while changed:
        changed = False
        for f in mod.defined.values():
            if f.name in nr:
                continue
            # f is noreturn if no 'ret' is reachable without passing a call to a noreturn function
            seen = set()
            work = [f.entry.id]
            can_ret = False
            while work and not can_ret:
                b = work.pop()
                if b in seen:
                    continue
                seen.add(b)
                blk = f.bmap[b]
                stopped = False
                for i in blk.insts:
                    if i.op == 'call' and i.callee in nr:
                        stopped = True
                        break
                    if i.op == 'ret':
                        can_ret = True
                        break
                    if i.op == 'unreachable':
                        stopped = True
                        break
                if not stopped and not can_ret:
                    work.extend(blk.succ)
            if not can_ret:
                nr.add(f.name)
                changed = True
    return nr


def bind_params(mod, root, wanted):
    """For the function `root` and the static helpers it (transitively) calls in the same file, map each of root's parameter ids in `wanted`
    to the id under which the same value is available in the helper (passed on unchanged as an argument).  {function name: {root id: local id}}"""
    out = {root.name: {w: w for w in wanted}}
    work = [root]
    while work:
        g = work.pop()
        env = out[g.name]
        inv = {v: k for k, v in env.items()}
        for i in g.real_insts():
            if i.op == 'call' and i.callee and i.callee not in out:
                h = mod.func(i.callee)
                if h is None or h.decl or (h.file or '') != (root.file or ''):
                    continue
                b = {}
                for k, o in enumerate(i.ops):
                    if isinstance(o, str) and o in inv and k < len(h.args):
                        b[inv[o]] = h.args[k]['id']
                out[h.name] = b
                work.append(h)
    return out


def check_api_not_macros(ctx, rep, rid, prefixes):
    """the API entry points with one of the prefixes are functions, not macros, for a client that includes nsync.h (see build.api_macro_probe)"""
    from .report import Violation, AnalysisBroken
    K = ctx.probe
    names = sorted(k[6:] for k in K if k.startswith('macro_') and k[6:].startswith(tuple(prefixes)))
    if not names:
        raise AnalysisBroken('%s: no API name with prefix %s found in the public headers' % (rid, '/'.join(prefixes)))
    bad = [n for n in names if K['macro_' + n]]
    rep.instance(rid, 'API names checked for macro interposition: %s' % ', '.join(names)); rep.oblig(rid, not bad)
    for n in bad:
        rep.violate(Violation(rid, 'public/ (after #include "nsync.h")',
            '%s is a preprocessor macro for clients of the public headers: calls no longer go (only) through the function body the rules analyse - a function-like macro can evaluate its arguments more than once and can short-cut the call with its own, unordered, test of the object' % n,
            site='%s/api-macro' % n))

"""A small instantiation of the interpreter for single protocol words other than the mutex/cv words (once word, futex count)."""
from .symex import Engine, WordClass, Ptr, TOP, Record, is_expr
from . import util, ir as IR

class SmallWordEngine(Engine):
    """tracks one word class identified either by a struct field or by a bare pointer base (e.g. the nsync_once* parameter);
    inlines only functions defined in the given source files (plus the CAS wrappers)"""
    def __init__(self, mod, name, universe, field=None, bases=(), files=(), extra_inline=()):
        self.cls = WordClass(name, field or ('<bare>' + name), lambda hold, spin: frozenset(universe), lambda v: (0, 0, 0))
        self.bases = tuple(bases)
        self.files = tuple(files)
        self.wrappers = util.cas_wrappers(mod)
        self.extra_inline = set(extra_inline)
        Engine.__init__(self, mod, [self.cls], opaque={}, inline_filter=self._inline)
        self.no_memo = set(mod.defined)        # no summaries: these functions are tiny and the ghost carries expressions
    def memoizable(self, callee):
        return False
    def _inline(self, callee):
        if callee in self.wrappers or callee in self.extra_inline:
            return True
        f = self.mod.func(callee)
        return f is not None and any((f.file or '').endswith(x) for x in self.files)
    def word_of(self, ptr):
        if isinstance(ptr, Ptr):
            if not ptr.path and ptr.base in self.bases:
                return self.cls, ptr
            if ptr.path and ptr.path[-1][0] == 'f' and ptr.path[-1][1] == self.cls.field:
                return self.cls, Ptr(ptr.base, ptr.path[:-1])
        return None, None
    def on_transition(self, st, rec):
        rec.flags = {k: v for k, v in st.ghost.items() if isinstance(k, tuple) and k and k[0] == 'flag'}
        self.word_transition(st, rec)
    def word_transition(self, st, rec):
        pass
    def rec_ctx(self, st):
        return tuple(sorted((k for k in st.ghost if isinstance(k, tuple) and k and k[0] == 'flag'), key=repr))

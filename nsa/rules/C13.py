"""C13 - releasing or waking never touches memory its owner may already have reclaimed.

R1 (engine E1): in the unlock family (nsync_mu_unlock, nsync_mu_runlock, nsync_mu_unlock_without_wakeup, nsync_mu_unlock_slow_), after the
   transition that leaves the calling thread with neither the lock nor the queue spinlock, no instruction up to the return
   accesses memory through a pointer derived from mu (load, store, atomic, or passing it to a callee).
R2 (engine E1): in the same family no access through mu follows the first semaphore V of a dequeued waiter (the woken thread may free the mutex).
R7 (engine E1): a thread that turns MU_WAITING on has a non-empty queue, or clears the bit, when it drops the spinlock (the slow unlock path
   relies on a queued waiter keeping the mutex alive after its early release) - found F6, repaired.
R3 (CFG, cv): in every function that unlinks records from a condition variable's queue under the cv spinlock and defers their
   wake-up to after the spinlock is dropped, only records proven pooled (NSYNC_WAITER_FLAG_MUCV true edge) may be deferred;
   a record without that proof (an nsync_wait_n caller's on-stack/heap record) must be woken inside the spinlock region.
R3' (CFG, note/counter): records on a note's / counter's waiter list are woken (waiting=0 store, semaphore V) only between the
   lock and unlock of that object's mutex - decided by the lockset rules of C08/C10 and referenced here."""
from .. import util, mumodel
from ..cfg import cfg_of
from ..report import Violation, AnalysisBroken
from .. import ir as IR

from .C01 import bits as C01bits
UNLOCK_FAMILY = ('nsync_mu_unlock', 'nsync_mu_runlock', 'nsync_mu_unlock_without_wakeup', 'nsync_mu_unlock_slow_')

def mucv_root(mod, fn, cond_ref, K):
    """if cond_ref is ((load X->container->flags) & MUCV) != 0 (or == 0), return (X, sense) else None"""
    i = fn.imap.get(cond_ref) if isinstance(cond_ref, str) else None
    if i is None or i.op != 'icmp' or i.x['pred'] not in ('ne', 'eq'):
        return None
    a, b = i.ops
    if not (IR.is_int(b) and IR.ival(b) == 0):
        return None
    sense = i.x['pred'] == 'ne'
    a = fn.imap.get(a) if isinstance(a, str) else None
    if a is None or a.op != 'and':
        return None
    m = [o for o in a.ops if IR.is_int(o)]
    v = [o for o in a.ops if isinstance(o, str)]
    if len(m) != 1 or len(v) != 1 or IR.uval(m[0]) != K['NSYNC_WAITER_FLAG_MUCV']:
        return None
    ld = fn.imap.get(v[0])
    if ld is None or ld.op != 'load':
        return None
    ac = util.addr_class(mod, fn, ld.ops[0])
    if util.last_field(ac) != 'nsync_waiter_s.flags':
        return None
    # base of the flags GEP: a load of X->container (possibly bitcast)
    base = ac['base']
    bi = fn.imap.get(base) if isinstance(base, str) else None
    if bi is None or bi.op != 'load':
        return None
    ac2 = util.addr_class(mod, fn, bi.ops[0])
    if util.last_field(ac2) != 'nsync_dll_element_s_.container':
        return None
    return (ac2['base'], sense)

def mucv_edges(mod, fn, t, K):
    """for a two-way branch t: list of (X, target block) such that on the edge to that block the record X is known to carry
    NSYNC_WAITER_FLAG_MUCV - also when the test was cached in a local (`native = (flags & MUCV) != 0; ... if (native)`) or is one conjunct of
    an && (the lowered phi / zext / second comparison are looked through)"""
    from ..bounds import _expand
    out = []
    if t.op != 'br' or len(t.x['targets']) != 2 or not isinstance(t.ops[0], str) or t.ops[0] not in fn.imap:
        return out
    def facts(c, sense, depth):
        r = mucv_root(mod, fn, c.id, K)
        if r is not None:
            return [(r[0], r[1] == sense)]
        res = []
        if depth > 4:
            return res
        if c.op == 'icmp' and c.x['pred'] in ('ne', 'eq') and IR.is_int(c.ops[1]) and IR.ival(c.ops[1]) == 0 and isinstance(c.ops[0], str):
            inner = fn.imap.get(c.ops[0])
            s2 = sense if c.x['pred'] == 'ne' else not sense
            while inner is not None and inner.op in ('zext', 'sext', 'trunc') and isinstance(inner.ops[0], str):
                inner = fn.imap.get(inner.ops[0])
            if inner is not None and inner.ty == 'i1':
                ex = []
                _expand(fn, inner, s2, ex, 0)
                for c2, se2 in ex:
                    if c2 is not c:
                        res += facts(c2, se2, depth + 1)
        return res
    for k, sense in ((0, True), (1, False)):
        ex = []
        _expand(fn, fn.imap[t.ops[0]], sense, ex, 0)
        for c, se in ex:
            for x, is_mucv in facts(c, se, 0):
                if is_mucv:
                    out.append((x, t.x['targets'][k]))
    return out

def check_dequeuers(ctx, mod, eng, runs, rep, rids=('C13.R4', 'C13.R5')):
    """R4: the dequeue function of every waitable kind passes, on every path, through the lock under which that kind's wakers touch a record
    (note_mu / counter_mu: lockset rules C08.R5, C10.R2; cv spinlock: R3 above).  The caller of nsync_wait_n discards its records right after the
    dequeue calls; a path through dequeue that does not take the lock can overtake a waker that has unlinked the record and is still about to
    read nw->sem / post it.
    R5: a function that puts a record of its own stack frame on a shared waiter list (nsync_sem_wait_with_cancel_) re-takes that list's mutex on
    every path between exposing the record (the unlock after the enqueue) and its return."""
    from .. import objmodel
    from ..symex import Ptr
    R4, R5 = rids
    rep.rule(R4, 'every dequeue function takes, on every path, the lock under which wakers of that kind touch the record')
    if R5:
        rep.rule(R5, 'a frame-local record put on a shared waiter list: the list mutex is re-taken on every path before the frame dies')
    oeng, oruns = objmodel.analyse(ctx)
    n4 = 0
    for label, fname, exits in oruns:
        if ' dequeue (' not in label:
            continue
        kind = label.split()[0]
        mf = {'note': 'nsync_note_s_.note_mu', 'counter': 'nsync_counter_s_.counter_mu'}.get(kind)
        if mf is None:
            raise AnalysisBroken('C13.R4: unknown waitable kind %s' % kind)
        fn = mod.func(fname)
        for x in exits:
            took = any(isinstance(k, tuple) and k[0] == 'ever' and isinstance(k[1], Ptr) and k[1].path and k[1].path[-1][0] == 'f' and k[1].path[-1][1] == mf
                       and k[1].base in ('arg:n', 'arg:c') and len(k[1].path) == 1 for k in x.ghost)
            n4 += 1
            rep.instance(R4, '%s: exit path, %s taken: %s' % (label, mf, took)); rep.oblig(R4, took)
            if not took:
                rep.violate(Violation(R4, '%s in %s' % (fn.file and IR.rel(fn.file) or '?', fname),
                    '%s: a path through the %s dequeue function returns without having taken %s; wakers of this kind unlink a record, clear its waiting flag and read nw->sem inside that mutex, so only taking it guarantees they are done - nsync_wait_n discards the record (its stack frame / heap block) right after this call' % (fname, kind, mf),
                    site='%s/dequeue-skips-lock' % fname))
    for e, exits in runs:
        if not e['label'].startswith('cv waitable dequeue'):
            continue
        for x in exits:
            took = any(isinstance(k, tuple) and k[:2] == ('flag', 'cv_spin_taken') and k[2] == mumodel.CV for k in x.ghost)
            n4 += 1
            rep.instance(R4, '%s: exit path, cv spinlock taken: %s' % (e['label'], took)); rep.oblig(R4, took)
            if not took:
                rep.violate(Violation(R4, 'internal/cv.c in %s' % e['fn'],
                    '%s: a path through the cv dequeue function returns without having taken the cv spinlock; signal/broadcast wake nsync_wait_n records inside that spinlock, so only taking it guarantees they are done with the record' % e['fn'],
                    site='%s/dequeue-skips-lock' % e['fn']))
    rep.floor(R4, 3)
    if not R5:
        return
    n5 = 0
    for label, fname, exits in oruns:
        for x in exits:
            pend = [k for k, v in x.ghost.items() if isinstance(k, tuple) and k[0] == 'enq_local']
            if any(r.kind == 'enqueue' and r.entry == label and isinstance(r.element, Ptr) and r.element.base.startswith('alloca:') for r in oeng.records):
                n5 += 1
                rep.instance(R5, '%s: exit path, frame-local record still exposed: %s' % (label, bool(pend))); rep.oblig(R5, not pend)
            if pend:
                rep.violate(Violation(R5, 'in %s' % fname,
                    '%s: returns on a path where a waiter record in its own stack frame was put on %s and the list mutex was released, without re-taking that mutex: a notifier that already unlinked the record may still be reading nw.sem / posting while the frame is reused' % (fname, pend[0][1]),
                    site='%s/local-record-exposed' % fname))
    rep.floor(R5, 1)
    # R6: wakers of note / counter records touch them only inside the object's mutex (same lockset facts as C08.R5 / C10.R2, judged here for
    # the reclamation hazard: the dequeuer of R4 takes that mutex, so holding it is what keeps the record alive)
    rep.rule('C13.R6', 'note / counter wakers write waiting and post the semaphore of a listed record only inside the object mutex')
    OBJMU = ('nsync_note_s_.note_mu', 'nsync_counter_s_.counter_mu')
    for r in oeng.records:
        foreign = None
        if r.kind == 'access' and r.field == 'nsync_waiter_s.waiting' and r.access == 'store' and r.obj.base.startswith(('ld:', 'ret:')):
            foreign = 'store to the waiting flag of a listed record'
        elif r.kind == 'prim' and r.callee == 'nsync_mu_semaphore_v' and r.args and isinstance(r.args[0], Ptr) and r.args[0].base.startswith(('ld:', 'ret:')):
            foreign = 'semaphore post through a listed record'
        if foreign is None or r.entry.startswith('nsync_sem_wait_with_cancel_'):
            continue
        ok = any(isinstance(m, Ptr) and m.path and m.path[-1][0] == 'f' and m.path[-1][1] in OBJMU for m in r.held)
        rep.instance('C13.R6', '%s at %s [%s]' % (foreign, r.where(), r.entry)); rep.oblig('C13.R6', ok)
        if not ok:
            rep.violate(Violation('C13.R6', r.where(), '%s with no note/counter mutex held: the owner of the record (an nsync_wait_n or cancellable-wait caller) can dequeue it, return and reuse the memory while this waker is still using it [entry %s]' % (foreign, r.entry),
                                  site='%s/wake-outside-mutex' % r.inst.fn.name))
    rep.floor('C13.R6', 4)

def run(ctx, rep):
    mod = ctx.mod('C')
    K = ctx.probe
    eng, runs = mumodel.analyse(ctx)
    rep.functions.update(f for r in eng.records for f in r.stack)
    rep.rule('C13.R1', 'unlock family: no access through mu after the transition that gives up both the lock and the spinlock')
    rep.rule('C13.R3', 'cv wakers: a record unlinked under the cv spinlock is deferred past the spinlock only on a proven-pooled (MUCV) edge')
    late = {}
    for r in eng.records:
        if r.kind == 'late_access' and any(r.entry.startswith(u) for u in UNLOCK_FAMILY):
            late.setdefault(r.entry, []).append(r)
    n = 0
    for e, exits in runs:
        if not any(e['label'].startswith(u) for u in UNLOCK_FAMILY):
            continue
        for x in exits:
            n += 1
            bad = late.get(e['label'], [])
            rep.instance('C13.R1', '%s: exit path, released=%s' % (e['label'], bool(x.ghost.get(('flag', 'released', mumodel.MU)))))
            rep.oblig('C13.R1', not bad)
    seen = set()
    for ent, rs in late.items():
        for r in rs:
            key = (r.inst.fn.name, r.inst.id)
            if key in seen:
                continue
            seen.add(key)
            rep.violate(Violation('C13.R1', r.where(),
                '%s of the mutex (%s) after the thread has released both the lock and the spinlock: another thread may already have acquired, found itself the last user and freed the mutex [entry %s, via %s]'
                % (r.access, '/'.join(p[1] for p in r.ptr.path if p[0] == 'f') or 'object', r.entry, r.ctx()),
                site='%s/late-access' % r.inst.fn.name))
    rep.floor('C13.R1', 8)
    # ---- R2: in the unlock family nothing is accessed through mu once a dequeued waiter has been posted.  A posted waiter can run at once,
    # acquire the mutex (the fast paths need no spinlock), find itself the last user, release and free it - so the releasing thread must have
    # finished with the mutex word and queue (including dropping the spinlock) before its first semaphore V.
    rep.rule('C13.R2', 'unlock family: no access through mu after the first wake-up (semaphore V) of a dequeued waiter')
    seen2 = set()
    n2 = 0
    for r in eng.records:
        if r.kind == 'call' and r.callee == 'nsync_mu_semaphore_v' and any(r.entry.startswith(u) for u in UNLOCK_FAMILY):
            n2 += 1
            rep.instance('C13.R2', 'wake-up at %s [%s]' % (r.where(), r.entry)); rep.oblig('C13.R2', True)
    for r in eng.records:
        if r.kind == 'access_after_wake' and any(r.entry.startswith(u) for u in UNLOCK_FAMILY):
            key = (r.inst.fn.name, r.inst.id)
            if key in seen2:
                continue
            seen2.add(key)
            rep.instance('C13.R2', '%s of mu after a wake-up at %s [%s]' % (r.access, r.where(), r.entry)); rep.oblig('C13.R2', False)
            rep.violate(Violation('C13.R2', r.where(),
                '%s of the mutex (%s) after a dequeued waiter has already been posted: the woken thread can acquire the mutex, drop the last reference and free it before this access [entry %s, via %s]'
                % (r.access, '/'.join(p[1] for p in r.ptr.path if p[0] == 'f') or 'object', r.entry, r.ctx()), site='%s/access-after-wake' % r.inst.fn.name))
    if n2 == 0:
        raise AnalysisBroken('C13.R2: no wake-up found in the unlock family')
    # ---- R3: deferred wake-ups on condition variables
    cvq = 'nsync_cv_s_.waiters'
    for fn in mod.defined.values():
        # functions that unlink from a cv queue: call nsync_dll_remove_(load cv.waiters, X)
        removes = []
        for i in fn.real_insts():
            if i.op == 'call' and i.callee == 'nsync_dll_remove_' and isinstance(i.ops[0], str) and i.ops[0] in fn.imap:
                l = fn.imap[i.ops[0]]
                if l.op == 'load' and util.last_field(util.addr_class(mod, fn, l.ops[0])) == cvq:
                    removes.append(i)
        if not removes:
            continue
        cfg = cfg_of(fn)
        um = util.users_map(fn)
        unlinked = set(util.strip_ptr(fn, r.ops[1]) for r in removes if isinstance(r.ops[1], str))
        # appends of an unlinked element to a list that is not stored back into the cv: a deferred wake-up
        for i in fn.real_insts():
            if i.op == 'call' and i.callee in ('nsync_dll_make_last_in_list_', 'nsync_dll_make_first_in_list_') and isinstance(i.ops[1], str):
                x = util.strip_ptr(fn, i.ops[1])
                if x not in unlinked:
                    continue
                stored_to_cv = any(u.op == 'store' and util.last_field(util.addr_class(mod, fn, u.ops[1])) == cvq for u in um.get(i.id, []))
                if stored_to_cv:
                    continue
                # a waiter that is the function's own pooled waiter struct is fine (type-guaranteed); elements are untyped
                ok = False
                for b in fn.blocks:
                    t = b.term
                    if t.op == 'br' and len(t.x['targets']) == 2:
                        for rx, tgt in mucv_edges(mod, fn, t, K):
                            if util.strip_ptr(fn, rx) == x and fn.bmap[tgt].preds == [b.id] and cfg.dominates(tgt, i.block.id):
                                ok = True
                rep.instance('C13.R3', '%s: element %s deferred to a post-spinlock wake list at %s' % (fn.name, fn.name_of(x), i.where()))
                rep.oblig('C13.R3', ok)
                if not ok:
                    rep.violate(Violation('C13.R3', i.where(),
                        '%s: a record unlinked from the cv queue is put on the deferred wake list without a dominating NSYNC_WAITER_FLAG_MUCV test; an nsync_wait_n caller owns such a record and may dequeue and discard it as soon as the cv spinlock is released (wake it under the spinlock instead)' % fn.name,
                        site='%s/deferred-nonpooled-wake' % fn.name))
    rep.floor('C13.R3', 3)
    # ---- R7: MU_WAITING implies a queued thread.  The slow path of unlock gives up the lock by its first CAS and keeps using the mutex (queue,
    # word) until its final CAS; that is safe only because it is taken when MU_WAITING is set and a queued waiter is a user that keeps the mutex
    # alive.  So a thread that turns MU_WAITING on (while taking the spinlock) must have put somebody on the queue - or take the bit back -
    # by the time it drops the spinlock.
    rep.rule('C13.R7', 'a thread that sets MU_WAITING has a non-empty queue (or clears the bit) when it releases the spinlock')
    WT = K['MU_WAITING']
    seen7 = set()
    for r in eng.records:
        if r.kind == 'trans' and r.wc.name == 'mu' and r.pairs and getattr(r, 'set_waiting', False) and r.spin == 1 and r.new_spin == 0:
            keeps = any(n & WT for e, n in r.pairs)
            s7 = r.site(eng.wrappers)
            ok = (not keeps) or r.queue_nonempty
            key = (s7.fn.name, s7.id, ok, r.entry)
            if key in seen7:
                continue
            seen7.add(key)
            rep.instance('C13.R7', 'spinlock released at %s after setting MU_WAITING: bit kept=%s queue known non-empty=%s [%s]' % (s7.where(), keeps, r.queue_nonempty, r.entry))
            rep.oblig('C13.R7', ok)
            if not ok:
                rep.violate(Violation('C13.R7', s7.where(),
                    'MU_WAITING can be left set although this thread queued nobody and the queue is not known to be non-empty: the next release takes the slow path, gives up the lock while it is still using the mutex, and - with no queued waiter as a user - another thread can acquire, find itself the last user and free the mutex under it [entry %s, via %s]' % (r.entry, r.ctx()),
                    site='%s/waiting-without-waiter' % s7.fn.name))
    # ... and the other direction: a thread that drops the spinlock knowing the queue to be empty leaves MU_WAITING clear
    for r in eng.records:
        # (not while the thread still holds the lock: the scanning unlocker parks the queue in a local list and drops the spinlock, holding the
        # write lock, before it restores the queue; and a timed-out conditional waiter legitimately leaves MU_WAITING|MU_CONDITION behind)
        if r.kind == 'trans' and r.wc.name == 'mu' and r.pairs and r.spin == 1 and r.new_spin == 0 and r.queue == 0 and r.new_hold not in ('W', 'R'):
            s7 = r.site(eng.wrappers)
            bad = next((n for e, n in r.pairs if n & WT), None)
            key = (s7.fn.name, s7.id, 'empty', bad is None, r.entry)
            if key in seen7:
                continue
            seen7.add(key)
            rep.instance('C13.R7', 'spinlock released at %s with the queue known empty: MU_WAITING left clear=%s [%s]' % (s7.where(), bad is None, r.entry))
            rep.oblig('C13.R7', bad is None)
            if bad is not None:
                rep.violate(Violation('C13.R7', s7.where(),
                    'the spinlock is released with the waiter queue known to be empty but MU_WAITING still set: every later release takes the slow path, gives up the lock while it is still using the mutex and - with no queued waiter as a user - another thread can acquire, find itself the last user and free the mutex under it [entry %s, via %s]' % (r.entry, r.ctx()),
                    site='%s/waiting-kept-on-empty-queue' % s7.fn.name))
    # ... MU_WAITING without MU_CONDITION is the state in which a release gives up the lock in its first CAS and goes on using the mutex, relying on
    # a queued waiter to keep it alive; MU_WAITING with MU_CONDITION makes the release keep the lock throughout.  A word with MU_WAITING may
    # therefore lose MU_CONDITION only in a transition that takes MU_WAITING down as well (the queue has drained): clearing the condition bit
    # alone - on a queue that may be empty, e.g. after a timed-out conditional waiter has removed itself - manufactures the first state
    # without the waiter.
    CO = K['MU_CONDITION']
    for r in eng.records:
        if r.kind == 'trans' and r.wc.name == 'mu' and r.pairs and any((e & CO) and not (n & CO) for e, n in r.pairs):
            s7 = r.site(eng.wrappers)
            bad = next(((e, n) for e, n in r.pairs if (e & CO) and not (n & CO) and (n & WT)), None)
            key = (s7.fn.name, s7.id, 'cond', bad is None, r.entry)
            if key in seen7:
                continue
            seen7.add(key)
            rep.instance('C13.R7', 'MU_CONDITION cleared at %s: MU_WAITING cleared with it=%s [%s]' % (s7.where(), bad is None, r.entry))
            rep.oblig('C13.R7', bad is None)
            if bad is not None:
                rep.violate(Violation('C13.R7', s7.where(),
                    'MU_CONDITION is cleared while MU_WAITING stays set (%s -> %s): with the queue empty (a timed-out conditional waiter has just removed itself) the next release takes the slow path, gives up the lock in its first CAS and - with no queued waiter as a user - the mutex can be freed under it; with conditional waiters still queued their conditions would be evaluated without the lock [entry %s, via %s]'
                    % (C01bits(K, bad[0]), C01bits(K, bad[1]), r.entry, r.ctx()), site='%s/condition-cleared-waiting-kept' % s7.fn.name))
    rep.floor('C13.R7', 3)
    check_dequeuers(ctx, mod, eng, runs, rep)
    rep.rule('C13.R8', 'pooled waiter records are never handed back to the allocator (wakers post their semaphores with no lock held)')
    check_pooled_never_freed(mod, rep, 'C13.R8')
    rep.assumptions += [
                        'a thread queued on the mutex is itself a user of it: the mutex cannot be reclaimed while the queue is non-empty']
    return rep.finish(
        explanation='R1: typestate interpretation of the unlock family - after the final release no pointer derived from mu is used. R3: dominance rule on cv wakers - only MUCV-proven records are woken after the spinlock is dropped. Waker/dequeuer exclusion for notes and counters is decided by the lockset rules in C08/C10.',
        trusted_base=['clang 14 IR', 'nsa/symex.py', 'dominators (nsa/cfg.py)'])


DEALLOCATORS = ('free', 'cfree', 'realloc', 'reallocarray', 'munmap')

def check_pooled_never_freed(mod, rep, rid):
    """The title clause for mutex and cv wakers rests on "a woken thread's record outlives the wake-up": the waker clears waiting and posts the
    semaphore of a pooled record after it has dropped every lock, and the woken thread may have left its wait (timeout) and even exited by
    then.  That is safe only because records handed out by nsync_waiter_new_ go back to the free list and never to the allocator.  Rule: no
    call of a deallocator in the library receives a pointer whose static type (through casts, phis and selects) is the pooled record type -
    the return type of nsync_waiter_new_ - or a pointer into one."""
    wn = mod.func('nsync_waiter_new_')
    if wn is None or wn.decl or not str(wn.ret).endswith('*'):
        raise AnalysisBroken('%s: nsync_waiter_new_ (the pool) not found' % rid)
    pooled = wn.ret
    inner = set()
    def src_types(fn, ref, seen):
        """static pointer types the value had before it was cast to void*"""
        out = set()
        if not isinstance(ref, str) or (fn.name, ref) in seen:
            return out
        seen.add((fn.name, ref))
        if ref.startswith('a') and ref[1:].isdigit():
            k = int(ref[1:])
            if k < len(fn.args):
                out.add(fn.args[k]['ty'])
            return out
        i = fn.imap.get(ref)
        if i is None:
            return out
        out.add(i.ty)
        if i.op == 'bitcast':
            out.add(i.x.get('sty'))
            out |= src_types(fn, i.ops[0], seen)
        elif i.op == 'phi':
            for v, pb in i.ops:
                out |= src_types(fn, v, seen)
        elif i.op == 'select':
            for v in i.ops[1:]:
                out |= src_types(fn, v, seen)
        elif i.op == 'getelementptr':
            # a pointer into a record (free (&w->nw) and the like)
            out |= set('into:' + t for t in src_types(fn, i.ops[0], seen))
        return out
    n = 0
    for g in mod.defined.values():
        for c in g.real_insts():
            if c.op == 'call' and c.callee in DEALLOCATORS and c.ops:
                n += 1
                tys = src_types(g, c.ops[0], set())
                bad = pooled in tys or ('into:' + pooled) in tys
                rep.instance(rid, '%s at %s receives %s' % (c.callee, c.where(), ', '.join(sorted(t for t in tys if t and t != 'i8*')) or 'void*')); rep.oblig(rid, not bad)
                if bad:
                    rep.violate(Violation(rid, c.where(),
                        '%s hands a pooled waiter record (%s) back to the allocator: a waker that has already dropped its locks still writes the record\'s waiting flag and posts its semaphore - after a timed-out waiter has returned, exited and had the record freed, that is a write to freed memory' % (g.name, pooled),
                        site='%s/waiter-freed' % g.name))
    if n == 0:
        raise AnalysisBroken('%s: no deallocator call found in the library (note/counter free and nsync_wait_n have one each)' % rid)

"""C13 - releasing or waking never touches memory its owner may already have reclaimed.

R1 (engine E1): in the unlock family (nsync_mu_unlock, nsync_mu_runlock, nsync_mu_unlock_without_wakeup, nsync_mu_unlock_slow_), after the
   transition that leaves the calling thread with neither the lock nor the queue spinlock, no instruction up to the return
   accesses memory through a pointer derived from mu (load, store, atomic, or passing it to a callee).
R3 (CFG, cv): in every function that unlinks records from a condition variable's queue under the cv spinlock and defers their
   wake-up to after the spinlock is dropped, only records proven pooled (NSYNC_WAITER_FLAG_MUCV true edge) may be deferred;
   a record without that proof (an nsync_wait_n caller's on-stack/heap record) must be woken inside the spinlock region.
R3' (CFG, note/counter): records on a note's / counter's waiter list are woken (waiting=0 store, semaphore V) only between the
   lock and unlock of that object's mutex - decided by the lockset rules of C08/C10 and referenced here."""
from .. import util, mumodel
from ..cfg import cfg_of
from ..report import Violation, AnalysisBroken
from .. import ir as IR

UNLOCK_FAMILY = ('nsync_mu_unlock', 'nsync_mu_runlock', 'nsync_mu_unlock_without_wakeup', 'nsync_mu_unlock_slow_')

def mucv_root(mod, fn, cond_ref, K):
    """if cond_ref is ((load X->container->flags) & MUCV) != 0 (or == 0), return (X, sense) else None"""
    i = fn.imap.get(cond_ref) if isinstance(cond_ref, str) else None
    if i is None or i.op != 'icmp' or i.x['pred'] not in ('ne', 'eq'):
        return None
    a, b = i.ops
    if not (IR.is_int(b) and IR.ival(b) == 0):
        return None
    sense = i.x['pred'] == 'ne'
    a = fn.imap.get(a) if isinstance(a, str) else None
    if a is None or a.op != 'and':
        return None
    m = [o for o in a.ops if IR.is_int(o)]
    v = [o for o in a.ops if isinstance(o, str)]
    if len(m) != 1 or len(v) != 1 or IR.uval(m[0]) != K['NSYNC_WAITER_FLAG_MUCV']:
        return None
    ld = fn.imap.get(v[0])
    if ld is None or ld.op != 'load':
        return None
    ac = util.addr_class(mod, fn, ld.ops[0])
    if util.last_field(ac) != 'nsync_waiter_s.flags':
        return None
    # base of the flags GEP: a load of X->container (possibly bitcast)
    base = ac['base']
    bi = fn.imap.get(base) if isinstance(base, str) else None
    if bi is None or bi.op != 'load':
        return None
    ac2 = util.addr_class(mod, fn, bi.ops[0])
    if util.last_field(ac2) != 'nsync_dll_element_s_.container':
        return None
    return (ac2['base'], sense)

def run(ctx, rep):
    mod = ctx.mod('C')
    K = ctx.probe
    eng, runs = mumodel.analyse(ctx)
    rep.functions.update(f for r in eng.records for f in r.stack)
    rep.rule('C13.R1', 'unlock family: no access through mu after the transition that gives up both the lock and the spinlock')
    rep.rule('C13.R3', 'cv wakers: a record unlinked under the cv spinlock is deferred past the spinlock only on a proven-pooled (MUCV) edge')
    late = {}
    for r in eng.records:
        if r.kind == 'late_access' and any(r.entry.startswith(u) for u in UNLOCK_FAMILY):
            late.setdefault(r.entry, []).append(r)
    n = 0
    for e, exits in runs:
        if not any(e['label'].startswith(u) for u in UNLOCK_FAMILY):
            continue
        for x in exits:
            n += 1
            bad = late.get(e['label'], [])
            rep.instance('C13.R1', '%s: exit path, released=%s' % (e['label'], bool(x.ghost.get(('flag', 'released', mumodel.MU)))))
            rep.oblig('C13.R1', not bad)
    seen = set()
    for ent, rs in late.items():
        for r in rs:
            key = (r.inst.fn.name, r.inst.id)
            if key in seen:
                continue
            seen.add(key)
            rep.violate(Violation('C13.R1', r.where(),
                '%s of the mutex (%s) after the thread has released both the lock and the spinlock: another thread may already have acquired, found itself the last user and freed the mutex [entry %s, via %s]'
                % (r.access, '/'.join(p[1] for p in r.ptr.path if p[0] == 'f') or 'object', r.entry, r.ctx()),
                site='%s/late-access' % r.inst.fn.name))
    rep.floor('C13.R1', 8)
    # ---- R3: deferred wake-ups on condition variables
    cvq = 'nsync_cv_s_.waiters'
    for fn in mod.defined.values():
        # functions that unlink from a cv queue: call nsync_dll_remove_(load cv.waiters, X)
        removes = []
        for i in fn.real_insts():
            if i.op == 'call' and i.callee == 'nsync_dll_remove_' and isinstance(i.ops[0], str) and i.ops[0] in fn.imap:
                l = fn.imap[i.ops[0]]
                if l.op == 'load' and util.last_field(util.addr_class(mod, fn, l.ops[0])) == cvq:
                    removes.append(i)
        if not removes:
            continue
        cfg = cfg_of(fn)
        um = util.users_map(fn)
        unlinked = set(util.strip_ptr(fn, r.ops[1]) for r in removes if isinstance(r.ops[1], str))
        # appends of an unlinked element to a list that is not stored back into the cv: a deferred wake-up
        for i in fn.real_insts():
            if i.op == 'call' and i.callee in ('nsync_dll_make_last_in_list_', 'nsync_dll_make_first_in_list_') and isinstance(i.ops[1], str):
                x = util.strip_ptr(fn, i.ops[1])
                if x not in unlinked:
                    continue
                stored_to_cv = any(u.op == 'store' and util.last_field(util.addr_class(mod, fn, u.ops[1])) == cvq for u in um.get(i.id, []))
                if stored_to_cv:
                    continue
                # a waiter that is the function's own pooled waiter struct is fine (type-guaranteed); elements are untyped
                ok = False
                for b in fn.blocks:
                    t = b.term
                    if t.op == 'br' and len(t.x['targets']) == 2:
                        root = mucv_root(mod, fn, t.ops[0], K)
                        if root and util.strip_ptr(fn, root[0]) == x:
                            tgt = t.x['targets'][0] if root[1] else t.x['targets'][1]
                            if fn.bmap[tgt].preds == [b.id] and cfg.dominates(tgt, i.block.id):
                                ok = True
                rep.instance('C13.R3', '%s: element %s deferred to a post-spinlock wake list at %s' % (fn.name, fn.name_of(x), i.where()))
                rep.oblig('C13.R3', ok)
                if not ok:
                    rep.violate(Violation('C13.R3', i.where(),
                        '%s: a record unlinked from the cv queue is put on the deferred wake list without a dominating NSYNC_WAITER_FLAG_MUCV test; an nsync_wait_n caller owns such a record and may dequeue and discard it as soon as the cv spinlock is released (wake it under the spinlock instead)' % fn.name,
                        site='%s/deferred-nonpooled-wake' % fn.name))
    rep.floor('C13.R3', 3)
    rep.assumptions += ['pooled waiter structs (nsync_waiter_new_) are never freed, so touching them after the release is safe',
                        'a thread queued on the mutex is itself a user of it: the mutex cannot be reclaimed while the queue is non-empty']
    return rep.finish(
        explanation='R1: typestate interpretation of the unlock family - after the final release no pointer derived from mu is used. R3: dominance rule on cv wakers - only MUCV-proven records are woken after the spinlock is dropped. Waker/dequeuer exclusion for notes and counters is decided by the lockset rules in C08/C10.',
        trusted_base=['clang 14 IR', 'nsa/symex.py', 'dominators (nsa/cfg.py)'])

"""C01 - writer exclusion and reader sharing hold on every acquisition path.

Decided as an inductive invariant of the mutex word: every atomic write to nsync_mu_s_.word in the library is interpreted
abstractly (nsa.symex / nsa.mumodel) in every calling context reachable from the public entry points; for every value the word
can have on the success edge (consistent with the branches taken, the invariant and the acting thread's own typestate) the new
value must be a legal transition.  See DESIGN.md section 3 (E1) and section 4 (C01)."""
from .. import util, mumodel
from ..report import Violation, AnalysisBroken

def bits(K, v):
    names = [('MU_WLOCK', 'W'), ('MU_SPINLOCK', 'SPIN'), ('MU_WAITING', 'WAITING'), ('MU_DESIG_WAKER', 'DESIG'), ('MU_CONDITION', 'COND'),
             ('MU_WRITER_WAITING', 'WRWAIT'), ('MU_LONG_WAIT', 'LONG'), ('MU_ALL_FALSE', 'ALLFALSE')]
    out = [n for k, n in names if v & K[k]]
    c = (v & 0xFFFFFFFF) // K['MU_RLOCK']
    if c:
        out.append('readers=%d' % c)
    return '{' + ' '.join(out) + '}'

def check_pair(K, muc, rec, e, n):
    """returns None or a message describing why the transition e -> n is illegal for a thread in typestate (hold, spin)"""
    W0, c0, s0 = muc.lockbits(e)
    W1, c1, s1 = muc.lockbits(n)
    hold, spin = rec.hold, rec.spin
    if W1 and c1:
        return 'new word has a writer and readers at once'
    dc = c1 - c0
    if W0 == 0 and W1 == 1:
        own = 1 if hold == 'R' else 0
        if c0 != own:
            return 'acquires the write lock while %d reader(s) other than the caller hold it' % (c0 - own)
        if hold == 'W':
            return 'acquires the write lock while already holding it'
        if dc != -own:
            return 'write acquisition changes the reader count by %d' % dc
    elif W0 == 1 and W1 == 0:
        if hold not in ('W', '?'):
            return 'clears the writer bit while the caller does not hold the write lock (typestate %s)' % hold
        if dc not in (0, 1):
            return 'write release changes the reader count by %d' % dc
    else:
        if dc == 1:
            if W0:
                return 'adds a reader while a writer holds the lock'
        elif dc == -1:
            if hold not in ('R', '?'):
                return 'removes a reader share while the caller holds none (typestate %s)' % hold
        elif dc != 0:
            return 'changes the reader count by %d' % dc
    if s0 == 0 and s1 == 1 and spin == 1:
        return 'acquires the queue spinlock twice'
    if s0 == 1 and s1 == 0 and spin != 1:
        return 'clears the queue spinlock bit while not holding it'
    if s0 == 1 and s1 == 1 and spin != 1 and rec.how == 'cas':
        pass
    return None

def run(ctx, rep):
    mod = ctx.mod('C')
    K = ctx.probe
    eng, runs = mumodel.analyse(ctx)
    muc = eng.muc
    rep.functions.update(f for r in eng.records for f in r.stack)
    rep.rule('C01.R1', 'every write to nsync_mu_s_.word is atomic and is reached (and interpreted) from an analysed entry point')
    rep.rule('C01.R2', 'transition obligations: each (site, context, pre-state) pair yields a legal change of writer bit / reader count / spinlock')
    rep.rule('C01.R3', 'plain stores to the word only while holding write lock + spinlock, value derived from the word the thread itself installed')
    rep.rule('C01.R4', 'ownership lemma: no RMW site can succeed on a word with writer bit and spinlock both set unless the acting thread owns one of them')
    rep.rule('C01.R5', 'API typestate at every exit of every entry point (mode held on return, spinlock never held)')
    # ---- R1
    sites = [s for s in util.atomic_sites(mod) if s.kind in ('cas', 'store', 'rmw')]
    covered = {}
    for r in eng.records:
        if r.kind == 'trans' and r.wc.name == 'mu':
            s = r.site(eng.wrappers)
            covered.setdefault((s.fn.name, s.id), []).append(r)
    mu_sites = []
    for s in sites:
        ac = util.addr_class(mod, s.fn, s.addr)
        if util.last_field(ac) == muc.field:
            mu_sites.append(s)
    for s in mu_sites:
        ok = (s.fn.name, s.inst.id) in covered
        rep.instance('C01.R1', '%s %s %s at %s' % (s.kind, s.ord, 'via ' + s.via if s.via else '', s.where()))
        rep.oblig('C01.R1', ok)
        if not ok:
            raise AnalysisBroken('C01.R1: the write to the mutex word at %s is not reached from any analysed entry point' % s.where())
    for f in mod.defined.values():
        for i in f.real_insts():
            if i.op == 'store' and i.ord == 'na':
                ac = util.addr_class(mod, f, i.ops[1])
                if util.last_field(ac) == muc.field:
                    rep.instance('C01.R1', 'non-atomic store at %s' % i.where())
                    rep.oblig('C01.R1', False)
                    rep.violate(Violation('C01.R1', i.where(), 'non-atomic store to the mutex word', site='%s/plain-store' % f.name))
    rep.floor('C01.R1', 18)
    # ---- R2, R3, R4
    nrec = 0
    for r in eng.records:
        if r.kind != 'trans' or r.wc.name != 'mu':
            continue
        nrec += 1
        s = r.site(eng.wrappers)
        sample = '%s %s %s typestate(hold=%s,spin=%s) effect(dW,dR,dSPIN)=%s pre-states=%s [%s]' % (
            s.where(), r.how, r.ord, r.hold, r.spin, r.effect, len(r.pairs) if r.pairs is not None else '?', r.entry)
        if r.how == 'store':
            ok = r.hold == 'W' and r.spin == 1 and r.pairs is not None
            rep.instance('C01.R3', sample)
            rep.oblig('C01.R3', ok)
            if not ok:
                why = ('the thread holds only %s (hold=%s, spinlock=%s), so other threads can change the word concurrently and the store overwrites their update'
                       % ('the spinlock' if r.spin == 1 else 'nothing', r.hold, r.spin)) if not (r.hold == 'W' and r.spin == 1) else \
                      'the stored value is not derived from the word this thread installed when it took ownership'
                rep.violate(Violation('C01.R3', s.where(), 'plain (non-RMW) store to the mutex word: ' + why + ' [entry %s, via %s]' % (r.entry, r.ctx()),
                                      site='%s/plain-word-store' % s.fn.name, witness={'entry': r.entry, 'stack': r.ctx(), 'typestate': [r.hold, r.spin]}))
                continue
        rep.instance('C01.R2', sample)
        if getattr(r, 'mixed', False):
            rep.oblig('C01.R2', False)
            rep.violate(Violation('C01.R2', s.where(),
                'this CAS expects the value of one load of the mutex word but installs a value computed from a different (earlier) load: it succeeds whenever the word equals the fresh value and then overwrites every change made between the two loads (reader shares taken or dropped, a writer bit, queue bits) [entry %s, via %s]' % (r.entry, r.ctx()),
                site='%s/cas-stale-new-value' % s.fn.name, witness={'entry': r.entry, 'stack': r.ctx()}))
        bad = None
        for (e, n) in (r.pairs or ()):
            msg = check_pair(K, muc, r, e, n)
            rep.oblig('C01.R2', msg is None)
            if msg and bad is None:
                bad = (e, n, msg)
        if bad:
            e, n, msg = bad
            rep.violate(Violation('C01.R2', s.where(),
                '%s: word %s -> %s by a thread with typestate hold=%s spinlock=%s [entry %s, via %s]' % (msg, bits(K, e), bits(K, n), r.hold, r.spin, r.entry, r.ctx()),
                site='%s/%s' % (s.fn.name, r.how), witness={'entry': r.entry, 'stack': r.ctx(), 'pre': bits(K, e), 'post': bits(K, n), 'typestate': [r.hold, r.spin]}))
        if r.how == 'cas':
            rep.instance('C01.R4', sample)
            bad4 = None
            for (e, n) in r.pairs:
                W0, c0, s0 = muc.lockbits(e)
                ok = not (W0 and s0) or r.hold == 'W' or r.spin == 1
                rep.oblig('C01.R4', ok)
                if not ok and bad4 is None:
                    bad4 = e
            if bad4 is not None:
                rep.violate(Violation('C01.R4', s.where(),
                    'this RMW can succeed on %s (writer bit and spinlock both set) although the acting thread owns neither; it would interleave with the plain stores that rely on exclusive ownership [entry %s]' % (bits(K, bad4), r.entry),
                    site='%s/rmw-on-owned-word' % s.fn.name))
    rep.floor('C01.R2', 30)
    rep.floor('C01.R4', 25)
    # ---- R5
    for e, exits in runs:
        exp = e['expect']
        if not exp:
            continue
        for x in exits:
            g = x.ghost.get(mumodel.lk(), ('?', 0))
            rv = x.trace[0] if x.trace else None
            ok = True
            want = None
            if 'hold' in exp:
                want = exp['hold']
                ok = g == (want, 0)
            elif 'iff_ret_nonzero' in exp:
                if isinstance(rv, int):
                    want = exp['iff_ret_nonzero'] if rv != 0 else 'none'
                    ok = g == (want, 0)
                else:
                    ok = False
                    want = 'a concrete 0/1 result'
            rep.instance('C01.R5', '%s: exit with result %r holds %s' % (e['label'], rv, g))
            rep.oblig('C01.R5', ok)
            if not ok:
                fn = mod.func(e['fn'])
                rep.violate(Violation('C01.R5', '%s:%d in %s' % (fn.file.replace('/repo/', ''), fn.line, fn.name),
                    '%s can return (result %r) with the mutex in typestate hold=%s spinlock=%s; expected hold=%s spinlock=0' % (e['label'], rv, g[0], g[1], want),
                    site='%s/exit-typestate' % e['fn']))
    rep.floor('C01.R5', 30)
    rep.extra['transition_records'] = nrec
    rep.extra['entries'] = [e['label'] for e, _ in runs]
    rep.extra['word_domain'] = 'all %d low-byte values x reader counts 0..7 (small-model: the code cuts the count only at {none, low bit, all})' % K['MU_RLOCK']
    rep.assumptions += [
        'fewer than 2^24 simultaneous readers (no overflow of the reader count)',
        'per-transition preservation implies the invariant for every interleaving: each write to the word is one atomic instruction and a CAS succeeds only on the value its path conditions describe',
        'clients release what they hold in the mode they hold it (violations the code itself detects end in nsync_panic_ and end the analysed path)',
        'clang 14 IR of the C target with platform/gcc_new/atomic.h stands for the gcc build',
    ]
    return rep.finish(
        explanation='Abstract interpretation of every atomic write to the mutex word in every calling context from the public API: transition obligations R2-R4 per (site, context, pre-state) and typestate at every exit (R5).',
        trusted_base=['clang 14 front end + sroa', 'tools/irfacts', 'nsa/symex.py interpreter (path-sensitive, finite states)', 'inductive-invariant argument (DESIGN.md section 3, E1)'])

"""C14 - a blocked locker cannot be overtaken indefinitely.

Structural necessary conditions of the escalation mechanism (the threshold value itself is deliberately not pinned):
R1  MU_LONG_WAIT is turned on only by the enqueue transition of a thread that has already slept in this lock call, and is turned off only by
    a transition that acquires the lock (the long waiter's own acquire); the sleep counter of lock_slow is incremented on every wake-up and
    compared with a positive loop-invariant constant (CFG shape).
R2  every acquire transition of a thread that has not waited (fast paths, try-locks, lock_slow entered with clear = 0 before its first sleep)
    succeeds only on words with MU_LONG_WAIT clear - and, for readers, MU_WRITER_WAITING clear; woken threads ignore both.
R3  a woken thread that must wait again re-queues at the front of the queue.
R4  the thread that raised MU_LONG_WAIT clears it in its own acquiring transition for every pre-state (nobody else clears it, R1)."""
from .. import util, mumodel, ir as IR
from ..cfg import cfg_of
from ..report import Violation, AnalysisBroken
from . import C01

def run(ctx, rep):
    mod = ctx.mod('C')
    K = ctx.probe
    eng, runs = mumodel.analyse(ctx)
    LONG, WW, DESIG = K['MU_LONG_WAIT'], K['MU_WRITER_WAITING'], K['MU_DESIG_WAKER']
    rep.functions.update(f for r in eng.records for f in r.stack)
    rep.rule('C14.R1', 'MU_LONG_WAIT set only by a re-queuing woken thread, cleared only by an acquiring transition; wake-up counter escalates')
    rep.rule('C14.R2', 'never-waited threads cannot acquire while MU_LONG_WAIT (readers: also MU_WRITER_WAITING) is set')
    rep.rule('C14.R3', 'woken threads re-queue at the front')
    LS = eng.LOCK_SLOW
    def slept(r):
        fl = getattr(r, 'flags', None) or {k: v for k, v in r.ghost.items() if isinstance(k, tuple) and k and k[0] == 'flag'}
        return any(k[:2] == ('flag', 'slept') and k[2] == LS for k in fl) or fl.get(('flag', 'ls_clear'), 0) not in (0,)
    for r in eng.records:
        if r.kind != 'trans' or r.wc.name != 'mu' or not r.pairs:
            continue
        s = r.site(eng.wrappers)
        dW, dc, ds = r.effect
        tag = '%s [%s]' % (s.where(), r.entry)
        acquiring = (dW == 1 and r.hold != 'R') or (dW == 0 and dc == 1)
        in_ls = LS in r.stack
        # (ds == 1: an acquire that takes the queue spinlock in the same step - the timed-out conditional waiter; it was not woken by an
        # unlocker, so it is a barging thread like any other)
        if acquiring and ds in (0, 1) and r.hold in ('none',):
            waited = in_ls and slept(r)
            if not waited:
                reader = dc == 1
                bad = next((e for e, n in r.pairs if (e & LONG) or (reader and e & WW)), None)
                rep.instance('C14.R2', tag + ' %s acquire by a thread that has not waited' % ('read' if reader else 'write'))
                rep.oblig('C14.R2', bad is None)
                if bad is not None:
                    rep.violate(Violation('C14.R2', s.where(),
                        'a thread that has never waited can acquire in %s mode on word %s: the long-waiting (or queued writer) thread can be overtaken without bound [entry %s]'
                        % ('read' if reader else 'write', C01.bits(K, bad), r.entry), site='%s/barging-acquire' % s.fn.name))
        sets = any((n & LONG) and not (e & LONG) for e, n in r.pairs)
        clears = any((e & LONG) and not (n & LONG) for e, n in r.pairs)
        if sets:
            ok = ds == 1 and in_ls and slept(r)
            rep.instance('C14.R1', tag + ' sets MU_LONG_WAIT')
            rep.oblig('C14.R1', ok)
            if not ok:
                rep.violate(Violation('C14.R1', s.where(), 'MU_LONG_WAIT is set by a transition that is not the re-queue of a thread that has already been woken [entry %s]' % r.entry,
                                      site='%s/long-wait-set' % s.fn.name))
        if clears:
            ok = acquiring or (dW == 1)
            rep.instance('C14.R1', tag + ' clears MU_LONG_WAIT')
            rep.oblig('C14.R1', ok)
            if not ok:
                rep.violate(Violation('C14.R1', s.where(),
                    'MU_LONG_WAIT is cleared by a transition that does not acquire the lock (effect dW=%d dR=%d dSPIN=%d): the long waiter loses its protection while it is still waiting [entry %s]' % (dW, dc, ds, r.entry),
                    site='%s/long-wait-cleared' % s.fn.name))
    check_long_wait_owner(eng, K, rep, 'C14.R4')
    # R3: re-queue position
    for r in eng.records:
        if r.kind == 'call' and r.callee in ('nsync_dll_make_last_in_list_', 'nsync_dll_make_first_in_list_') and r.inst.fn.name == LS:
            w = any(isinstance(k, tuple) and k[:2] == ('flag', 'slept') and k[2] == LS for k in r.ghost)
            if w:
                ok = r.callee == 'nsync_dll_make_first_in_list_'
                rep.instance('C14.R3', 're-queue after a wake-up via %s at %s [%s]' % (r.callee, r.where(), r.entry))
                rep.oblig('C14.R3', ok)
                if not ok:
                    rep.violate(Violation('C14.R3', r.where(), 'a thread that was woken and lost the race re-queues at the tail: it can be passed by every later arrival [entry %s]' % r.entry,
                                          site='%s/requeue-at-tail' % LS))
    # R1 (shape): the wake-up counter
    fn = mod.func(LS)
    if fn is None:
        raise AnalysisBroken('C14: %s not found' % LS)
    cfg = cfg_of(fn)
    loops = cfg.loops()
    ok_counter = False
    detail = 'no counter found'
    from ..symex import Liveness
    ind = Liveness(fn).induction
    um = util.users_map(fn)
    ps = [j for j in fn.real_insts() if j.op == 'call' and j.callee == 'nsync_mu_semaphore_p']
    for iid in sorted(ind):
        inc = fn.imap[iid]
        if inc.op != 'add' or not any(IR.is_int(o) and IR.ival(o) == 1 for o in inc.ops):
            continue
        after_sleep = any(paths_reach(fn, j, inc) for j in ps) and not paths_reach(fn, fn.entry.insts[0], inc, avoid=ps_or_poll(mod, fn))
        # the comparison may see the counter through phis (a saturating `if (count < N) count++`)
        flow, work = {inc.id}, [inc.id]
        while work:
            x = work.pop()
            for u in um.get(x, []):
                if u.op == 'phi' and u.id not in flow:
                    flow.add(u.id); work.append(u.id)
        cmps = [u for x in sorted(flow) for u in um.get(x, []) if u.op == 'icmp' and any(IR.is_int(o) and IR.ival(o) > 0 for o in u.ops)
                and u.x['pred'] in ('eq', 'uge', 'ugt', 'sge', 'sgt')]
        if after_sleep and cmps:
            ok_counter = True
            detail = 'counter %s incremented at %s after the sleeper loop, compared at %s' % (fn.name_of(inc.ops[0]) if isinstance(inc.ops[0], str) else '?', inc.where(), cmps[0].where())
            break
    rep.instance('C14.R1', '%s: %s' % (LS, detail))
    rep.oblig('C14.R1', ok_counter)
    if not ok_counter:
        rep.violate(Violation('C14.R1', '%s:%d in %s' % (IR.rel(fn.file), fn.line, LS),
            'the slow lock path has no wake-up counter that is incremented after each sleep and compared with a positive constant: MU_LONG_WAIT is never raised', site='%s/no-escalation' % LS))
    rep.floor('C14.R1', 2)
    rep.floor('C14.R2', 8)
    rep.floor('C14.R3', 1)
    rep.assumptions += ['the bound itself under adversarial schedules is not decided; these are necessary conditions of the escalation mechanism']
    return rep.finish(
        explanation='R1-R3 judged on the transitions and list operations recorded by the abstract interpreter (who sets / clears MU_LONG_WAIT, which acquire transitions tolerate it, where woken threads re-queue) plus a CFG shape check of the wake-up counter.',
        trusted_base=['clang 14 IR', 'nsa/symex.py'])

def check_long_wait_owner(eng, K, rep, rid):
    """the thread that turned MU_LONG_WAIT on (by its re-queue transition) turns it off in the transition with which it finally acquires,
    whatever the other bits are.  Nobody else clears the bit (R1), so if its owner leaves it set, it outlives the long wait: every thread that
    has not waited then finds the mutex un-acquirable although it is free, queues itself, and - with no holder left to wake it - sleeps for good."""
    LONG = K['MU_LONG_WAIT']
    rep.rule(rid, 'the thread that raised MU_LONG_WAIT clears it in its own acquiring transition (for every pre-state)')
    n = 0
    for r in eng.records:
        if r.kind != 'trans' or r.wc.name != 'mu' or not r.pairs or not getattr(r, 'long_waiter', False):
            continue
        if not (r.hold == 'none' and r.new_hold in ('W', 'R')):
            continue
        s = r.site(eng.wrappers)
        bad = next(((e, nn) for e, nn in r.pairs if nn & LONG), None)
        n += 1
        rep.instance(rid, 'acquire by the thread that raised MU_LONG_WAIT at %s [%s]' % (s.where(), r.entry)); rep.oblig(rid, bad is None)
        if bad is not None:
            rep.violate(Violation(rid, s.where(),
                'the long waiter can acquire on word %s and leave MU_LONG_WAIT set (%s): no other transition clears the bit, so from then on threads that have not waited cannot acquire the mutex even when it is free; they queue behind nobody and are never woken [entry %s]'
                % (C01.bits(K, bad[0]), C01.bits(K, bad[1]), r.entry), site='%s/long-wait-leak' % s.fn.name))
    return n

def paths_reach(fn, a, b, avoid=()):
    from ..cfg import paths_avoiding
    av = set(id(x) for x in avoid)
    return paths_avoiding(fn, a, lambda i: i is b, lambda i: id(i) in av) is not None

def ps_or_poll(mod, fn):
    """the sleeper loop's poll of the waiter's waiting flag: the counter must only be reachable through it"""
    out = []
    for i in fn.real_insts():
        if i.op == 'load' and i.ord != 'na' and util.last_field(util.addr_class(mod, fn, i.ops[0])) == 'nsync_waiter_s.waiting':
            out.append(i)
    return out

"""C19 - allocation failure is reported, not crashed on, by nsync_note_new and nsync_counter_new.

Rule (nullness typestate on the malloc result r, decided on the CFG of each constructor):
  R1  every use of r (or of an address computed from r) other than the NULL comparison and the return is dominated by the
      non-NULL edge of a branch on (r == NULL);
  R3  (lockset interpretation) at every NULL return of a constructor no mutex is held and no pre-existing object (the parent) has been written.
  R4  the constructors perform no allocation besides their own checked one: they reach nsync_mu_wait (an expired note is notified on the spot,
      and the notifier waits for a child list that is empty) with a condition that is already true, so the conditional wait may ask for a
      waiter record - an allocation whose failure is not handled - only on a path where it has found its condition false.
  R2  the NULL path (blocks reachable from the NULL edge without passing the non-NULL edge) contains no store and no call, so
      nothing - in particular the intended parent - is touched, and it returns r (i.e. NULL) or a literal NULL."""
from .. import ir as IR
from ..cfg import cfg_of
from ..util import users_map, derived_set
from ..report import Violation, AnalysisBroken

CONSTRUCTORS = ('nsync_note_new', 'nsync_counter_new')
ALLOCATORS = ('malloc', 'calloc', 'realloc')

PASS_THROUGH = ('memset', 'memcpy', 'memmove')      # return their first argument

def _derived(fn, root):
    """SSA ids carrying the pointer root: casts, address arithmetic, phi, and the result of memset/memcpy (which return their first argument)"""
    um = users_map(fn)
    out = {root}
    work = [root]
    while work:
        r = work.pop()
        for u in um.get(r, []):
            if u.id in out:
                continue
            if u.op in ('bitcast', 'addrspacecast', 'getelementptr') or (u.op == 'call' and u.callee in PASS_THROUGH and u.ops and u.ops[0] == r):
                out.add(u.id); work.append(u.id)
    return out

def hook_name(fn, i):
    """for an indirect call through a global allocation hook (void *(*nsync_malloc_ptr_)(size_t)): the name of the hook, else None"""
    if i.op != 'call' or i.callee is not None or i.ty != 'i8*':
        return None
    cv = i.x.get('cv')
    l = fn.imap.get(cv) if isinstance(cv, str) else None
    if l is not None and l.op == 'load' and isinstance(l.ops[0], dict) and l.ops[0].get('k') == 'global' and 'alloc' in l.ops[0].get('n', ''):
        return l.ops[0]['n']
    return None

def alloc_name(fn, i, fns):
    """name of the allocator this call obtains memory from (malloc & co., an allocating wrapper, an allocation hook), else None"""
    if i.op == 'call' and i.callee in fns:
        return i.callee
    h = hook_name(fn, i)
    return ('(*%s)' % h) if h else None

def allocator_functions(mod):
    """malloc & co. plus every defined function that returns the result of one of them (a wrapper such as a zeroing allocator)"""
    fns = set(ALLOCATORS)
    changed = True
    while changed:
        changed = False
        for f in mod.defined.values():
            if f.name in fns:
                continue
            for a in (i for i in f.real_insts() if alloc_name(f, i, fns)):
                D = _derived(f, a.id)
                phis = set(i.id for i in f.real_insts() if i.op == 'phi' and any(isinstance(v, str) and v in D for v, _ in i.ops))
                if any(i.op == 'ret' and i.ops and isinstance(i.ops[0], str) and (i.ops[0] in D or i.ops[0] in phis) for i in f.real_insts()):
                    fns.add(f.name); changed = True
                    break
    return fns

def run(ctx, rep):
    mod = ctx.mod('C')
    rep.rule('C19.R1', 'every dereference/escape of the malloc result is dominated by the non-NULL edge of its NULL test')
    rep.rule('C19.R2', 'the NULL path performs no store and no call and returns NULL')
    rep.rule('C19.R3', 'on the NULL return no lock is held and no existing object has been written (the parent stays unchanged and usable)')
    alloc_fns = allocator_functions(mod)
    rep.rule('C19.R4', 'the conditional wait obtains a waiter record (an unchecked allocation) only after finding its condition false')
    check_wait_allocates_lazily(ctx, rep, 'C19.R4')
    todo = [(n, True) for n in CONSTRUCTORS]
    done = set()
    while todo:
        name, is_ctor = todo.pop(0)
        if name in done:
            continue
        done.add(name)
        fn = mod.func(name)
        if fn is None or fn.decl:
            raise AnalysisBroken('C19: constructor %s not found in the library IR' % name)
        rep.functions.add(name)
        cfg = cfg_of(fn)
        allocs = [i for i in fn.real_insts() if alloc_name(fn, i, alloc_fns)]
        if not allocs:
            raise AnalysisBroken('C19: %s no longer obtains memory from an allocator (anchor vanished)' % name)
        for a in allocs:
            if a.callee is not None and a.callee not in ALLOCATORS:
                todo.append((a.callee, False))          # an allocating wrapper: its own use of the malloc result is judged too
        um = users_map(fn)
        for a in allocs:
            D = _derived(fn, a.id)
            # null tests on r
            tests = []
            for d in D:
                for u in um.get(d, []):
                    if u.op == 'icmp' and u.x['pred'] in ('eq', 'ne') and any(IR.is_null(o) for o in u.ops):
                        for b in um.get(u.id, []):
                            if b.op == 'br' and len(b.x['targets']) == 2:
                                t, f = b.x['targets']
                                nonnull, null = (t, f) if u.x['pred'] == 'ne' else (f, t)
                                tests.append((b, nonnull, null))
            guards = [(b, nn, nl) for (b, nn, nl) in tests if fn.bmap[nn].preds == [b.block.id]]
            # R1
            for d in D:
                for u in um.get(d, []):
                    if u.op in ('bitcast', 'addrspacecast', 'getelementptr', 'icmp', 'ret', 'dbg'):
                        continue
                    if u.op == 'phi':
                        # merging r into a returned value is fine; anything else is treated as a use
                        if all(x.op in ('ret', 'dbg') for x in um.get(u.id, [])):
                            continue
                    ok = any(cfg.dominates(nn, u.block.id) for (_, nn, _) in guards)
                    rep.instance('C19.R1', '%s: use of %s result by %s at %s' % (name, alloc_name(fn, a, alloc_fns), u.op, u.where()))
                    rep.oblig('C19.R1', ok)
                    if not ok:
                        rep.violate(Violation('C19.R1', u.where(),
                            '%s: the result of %s (%s) is used by a %s that is not guarded by a NULL check' % (name, alloc_name(fn, a, alloc_fns), a.where(), u.op),
                            site='%s/%s-use' % (name, u.op)))
            if not guards and not is_ctor:
                continue          # a plain wrapper that hands the pointer on unexamined (every use was judged by R1 above)
            if not guards:
                rep.instance('C19.R2', '%s: no NULL test of the %s result' % (name, alloc_name(fn, a, alloc_fns)))
                rep.oblig('C19.R2', False)
                rep.violate(Violation('C19.R2', a.where(), '%s: the result of %s is never compared with NULL' % (name, alloc_name(fn, a, alloc_fns)),
                                      site='%s/no-null-test' % name))
                continue
            # R2
            for (b, nn, nl) in guards:
                region = cfg.reachable_from([nl], avoid=frozenset([nn]))
                # blocks of the region that are also reachable from the non-NULL side are join blocks (shared tail)
                nn_region = cfg.reachable_from([nn])
                bad = None
                for bid in sorted(region):
                    for i in fn.bmap[bid].insts:
                        if i.op in ('store', 'call', 'invoke', 'cmpxchg', 'atomicrmw') and not (i.op == 'call' and (i.callee or '').startswith('llvm.dbg')):
                            if bid in nn_region:
                                # shared tail: executed on both paths -> still executed when r == NULL
                                pass
                            bad = i
                            break
                    if bad:
                        break
                rets_ok = True
                for bid in region:
                    t = fn.bmap[bid].term
                    if t.op == 'ret' and t.ops:
                        v = t.ops[0]
                        if IR.is_null(v) or (isinstance(v, str) and v in D):
                            continue
                        if isinstance(v, str) and v in fn.imap and fn.imap[v].op == 'phi':
                            for (pv, pb) in fn.imap[v].ops:
                                if pb in region or pb == b.block.id:
                                    if not (IR.is_null(pv) or (isinstance(pv, str) and pv in D)):
                                        rets_ok = False
                            continue
                        rets_ok = False
                ok = bad is None and rets_ok
                rep.instance('C19.R2', '%s: NULL edge %s->%s, %d block(s) on the NULL path' % (name, b.block.id, nl, len(region)))
                rep.oblig('C19.R2', ok)
                if bad is not None:
                    rep.violate(Violation('C19.R2', bad.where(), '%s: a %s is executed on the path where %s returned NULL' % (name, bad.op + (' ' + bad.callee if bad.op == 'call' and bad.callee else ''), alloc_name(fn, a, alloc_fns)),
                                          site='%s/null-path-%s' % (name, bad.op)))
                elif not rets_ok:
                    rep.violate(Violation('C19.R2', b.where(), '%s: the NULL path does not return NULL' % name, site='%s/null-path-return' % name))
    # ---- R3: the NULL return leaves every pre-existing object as it was (lockset interpretation of the constructors)
    from .. import objmodel
    from ..symex import Ptr
    oeng, oruns = objmodel.analyse(ctx)
    for label, fname, exits in oruns:
        if not label.startswith(CONSTRUCTORS):
            continue
        for x in exits:
            rv = x.trace[0] if x.trace else None
            if rv != 0:
                continue
            held = [k[1] for k in x.ghost if isinstance(k, tuple) and k[0] == 'held']
            wrote = [k[1] for k in x.ghost if isinstance(k, tuple) and k[0] == 'wrote']
            ok = not held and not wrote
            rep.instance('C19.R3', '%s: NULL return, locks still held: %s, existing objects written: %s' % (label, [getattr(h, 'base', h) for h in held], wrote))
            rep.oblig('C19.R3', ok)
            if not ok:
                fn = mod.func(fname)
                rep.violate(Violation('C19.R3', '%s:%d in %s' % (IR.rel(fn.file), fn.line, fname),
                    '%s can return NULL %s: the caller is told nothing was created, yet %s' % (label,
                        'with %s still locked' % ', '.join('%s->note_mu' % getattr(h, 'base', '?').replace('arg:', '') for h in held) if held else 'after modifying %s' % ', '.join(w.replace('arg:', '') for w in wrote),
                        'every later operation on that note blocks forever' if held else 'the existing object is no longer unchanged'),
                    site='%s/null-return-%s' % (fname, 'lock-held' if held else 'wrote')))
    rep.floor('C19.R3', 2)
    rep.floor('C19.R1', 4)
    rep.floor('C19.R2', 2)
    rep.assumptions += ['malloc is the only allocation performed by the two constructors (checked: allocator calls are enumerated from the IR)',
                        'clang 14 IR of the C target stands for the gcc build']
    return rep.finish(
        explanation='Nullness typestate of the malloc result in nsync_note_new and nsync_counter_new, decided by dominance on the CFG: all uses are behind the non-NULL edge; the NULL path has no store/call and returns NULL.',
        trusted_base=['clang 14 front end + sroa', 'tools/irfacts', 'dominator computation in nsa/cfg.py'])


def check_wait_allocates_lazily(ctx, rep, rid):
    from .. import mumodel
    eng, runs = mumodel.analyse(ctx)
    n = 0
    for r in eng.records:
        if r.kind == 'waiter_new' and (r.entry or '').startswith('nsync_mu_wait'):
            n += 1
            ok = r.cond_vals is not None and set(r.cond_vals) <= {0}
            rep.instance(rid, 'waiter record requested at %s, last condition value %s [%s]' % (r.where(), r.cond_vals, r.entry)); rep.oblig(rid, ok)
            if not ok:
                rep.violate(Violation(rid, r.where(),
                    'the conditional wait asks for a waiter record although its condition %s: nsync_note_new with an already expired deadline notifies the new note on the spot and reaches this wait with a true condition - a second, unchecked allocation inside the constructor, whose failure is a crash instead of a NULL return [entry %s]'
                    % ('may be true' if r.cond_vals else 'has not been evaluated (or is absent)', r.entry), site='%s/eager-waiter' % r.inst.fn.name))
    if n == 0:
        raise AnalysisBroken('%s: the conditional wait never requests a waiter record' % rid)

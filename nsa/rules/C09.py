"""C09 - concurrent notify / free / create on related notes is safe.

R1  lock order (lockset + pointer provenance): a blocking acquisition of a note mutex while another note mutex is held always goes from parent to
    child - the acquired note was reached through the held note's children list, or the held note is the value of the acquired note's parent field;
    upward acquisitions use trylock.  The same for the conditional wait on n->note_mu (it re-takes n) while the parent's mutex is held.
R2  the unlock-n / lock-parent / lock-n dance (and any blocking lock of n->parent while n's mutex is not held) happens only while this thread has
    n->disconnecting incremented, so nobody else disconnects n and frees the cached parent.
R3  free(n) happens after the wait for an empty child list, with no note mutex held, and nothing touches n afterwards.
R4  the recursive notifier is called with its contract: child mutex held, and the mutex of the note passed as its parent held.
R5  a child is appended to some note P's children list (adoption by nsync_note_free) only in a critical section of P's mutex in which P was found
    not notified - otherwise a notifier or freer of P that is already waiting for P's child list to drain is blocked until the adopted child goes
    away, and the child of the already notified P is never notified.
R7  nsync_note_free unlinks a child from its list only on the path where child->disconnecting was read as 0 under the child's mutex.
R8  nsync_mu_unlock_without_wakeup ends a note-mutex critical section only if that section changed neither a child list nor the flag.
R9  "wait on / free concurrently": nsync_note_free requires an empty waiter list, and a waiter record lives in its waiter's frame or pool; a
    record is therefore appended to n->waiters only in a critical section of n's mutex in which n was found not notified (= C08.R6 restricted
    to the waiter list) - a record linked onto an already drained note is never unlinked by a notifier and is still there, dead, when the
    note is freed.
R10 the disconnect protocol's own state - a note's parent pointer, child list and disconnecting count - is read and written only with that note's
    mutex held (= C08.R5 for these fields): an unlocked peek at child->disconnecting can see 0 just before the child's disconnector raises
    it, and the notifier then unlinks the child under that thread's feet - its cached parent is freed while it still means to lock it.
R11 "no such call deadlocks": a loop that re-reads the head of a child / waiter list on every iteration (`while ((p = first (list)) != NULL)`)
    unlinks an element of that list on every path round the loop; nsync_note_free deliberately leaves children that somebody else is
    disconnecting on the list, so a drain-the-list loop over them spins for ever with the note's and the parent's mutexes held.
R6  a notifier performs the unlock-n / lock-cached-parent step only if it raised n->disconnecting from zero (path-sensitive: the count read
    under n's mutex is abstracted to {0, non-zero}); otherwise a second disconnector can unlink n, the parent is freed, and the stale pointer is
    locked (finding F5, repaired).
Absence of deadlock / use-after-free over all interleavings is not decided beyond these mechanisms."""
from .. import util, ir as IR, objmodel
from ..report import Violation, AnalysisBroken
from ..symex import Ptr
from .C08 import holds, MU

def obj_of(m):
    return Ptr(m.base, m.path[:-1])

def run(ctx, rep):
    mod = ctx.mod('C')
    eng, runs = objmodel.analyse(ctx)
    rep.functions.update(f for r in eng.records for f in r.stack)
    for rid, d in (('C09.R1', 'blocking note-mutex acquisitions under another note mutex go parent -> child'),
                   ('C09.R2', 'the cached parent is locked without holding n only while n->disconnecting is raised'),
                   ('C09.R3', 'free after the child list drained, no mutex held, no later access'),
                   ('C09.R4', 'recursive notifier called with child and parent mutex held'),
                   ('C09.R5', 'adoption appends to a parent only after finding it not notified in the same critical section'),
                   ('C09.R6', 'a notifier locks the cached parent (note mutex released) only as the sole disconnector of the note')):
        rep.rule(rid, d)
    def relation(entry, held_obj, acq_obj):
        if eng.derives_from(entry, acq_obj, held_obj, 'nsync_note_s_.children'):
            return 'child (reached through the held note\'s children list)'
        if eng.is_field_load_of(entry, held_obj, acq_obj, 'nsync_note_s_.parent'):
            return 'child (the held note is its parent field)'
        return None
    for r in eng.records:
        if r.kind in ('acquire', 'condwait') and isinstance(r.mutex, Ptr) and r.mutex.path and r.mutex.path[-1][1] == MU:
            y = obj_of(r.mutex)
            others = [obj_of(m) for m in r.held if isinstance(m, Ptr) and m.path and m.path[-1][1] == MU and m != r.mutex]
            if r.kind == 'acquire' and not r.blocking:
                continue
            if others:
                rels = [(x, relation(r.entry, x, y)) for x in others]
                up = any(eng.is_field_load_of(r.entry, y, x, 'nsync_note_s_.parent') for x in others)
                rel = next((rl for x, rl in rels if rl), None) if not up else None
                x = others[0]
                rep.instance('C09.R1', '%s of %s.note_mu while holding %s at %s: %s [%s]' % ('lock' if r.kind == 'acquire' else 'conditional wait', y.base, [o.base for o in others], r.where(), rel or 'NOT parent->child', r.entry))
                rep.oblig('C09.R1', rel is not None)
                if rel is None:
                    rep.violate(Violation('C09.R1', r.where(),
                        'blocking %s of a note mutex while holding another note\'s mutex against the parent-before-child order%s: a thread notifying or freeing that note holds it and locks each child in turn - deadlock [entry %s]'
                        % ('lock' if r.kind == 'acquire' else 'wait', ' (the acquired note is the PARENT of the held one)' if up else '', r.entry), site='%s/lock-order' % r.inst.fn.name))
            if r.kind == 'acquire':
                # R2: locking n->parent while n is not held
                for a in eng.origin.get((r.entry, y.base), ()):
                    if a.path and a.path[-1][0] == 'f' and a.path[-1][1] == 'nsync_note_s_.parent' and not y.path:
                        n = Ptr(a.base, a.path[:-1])
                        if not holds(r.held, n):
                            ok = r.flags.get(('disc', n), 0) > 0
                            rep.instance('C09.R2', 'lock of %s->parent without holding it at %s, disconnecting raised=%s [%s]' % (n.base, r.where(), ok, r.entry))
                            rep.oblig('C09.R2', ok)
                            if not ok:
                                rep.violate(Violation('C09.R2', r.where(),
                                    'the cached parent pointer of a note is locked while that note\'s own mutex is not held and its disconnecting count is not raised: a concurrent free of the parent can adopt the note away and free the parent first (use after free) [entry %s]' % r.entry,
                                    site='%s/parent-without-disconnecting' % r.inst.fn.name))
                            # R6: ... and only by the sole disconnector.  The raised count keeps the parent alive only as long as n stays on
                            # the parent's child list (a freer of the parent waits for that list to drain); another thread that is also
                            # disconnecting n (a second nsync_note_notify(n), or the lazy expiry run by a poll) unlinks n when it finishes,
                            # after which the parent may be freed while this thread still holds the stale pointer.  nsync_note_free(n) is
                            # exempt: no other operation on n may be concurrent with it (client contract), so nobody else disconnects n.
                            if r.entry.startswith('nsync_note_free'):
                                continue
                            excl = r.flags.get(('disc_excl', n)) == 1
                            rep.instance('C09.R6', 'lock of cached %s->parent at %s: count raised from zero (sole disconnector)=%s [%s]' % (n.base, r.where(), excl, r.entry))
                            rep.oblig('C09.R6', excl)
                            if not excl:
                                rep.violate(Violation('C09.R6', r.where(),
                                    'a notifier releases the note\'s mutex and locks the cached parent although another thread may already be disconnecting the same note (the disconnecting count was not found zero before it was raised): when that thread unlinks the note, a concurrent nsync_note_free of the parent finds no children and frees it, and this thread then locks freed memory [entry %s]' % r.entry,
                                    site='%s/stale-parent-second-disconnector' % r.inst.fn.name))
        elif r.kind == 'free' and isinstance(r.ptr, Ptr) and r.entry.startswith('nsync_note'):
            waited = r.flags.get(('waited', r.ptr)) == 1
            held = [m for m in r.held]
            ok = waited and not held
            rep.instance('C09.R3', 'free at %s: waited-for-no-children=%s held=%s' % (r.where(), waited, [m.base for m in held]))
            rep.oblig('C09.R3', ok)
            if not ok:
                rep.violate(Violation('C09.R3', r.where(), 'the note is freed %s' % ('without first waiting for its child list to drain (children still point at it)' if not waited else 'while a note mutex is still held'),
                                      site='%s/free-precondition' % r.inst.fn.name))
        elif r.kind == 'uaf':
            rep.instance('C09.R3', 'access after free at %s' % r.where()); rep.oblig('C09.R3', False)
            rep.violate(Violation('C09.R3', r.where(), 'the note is accessed (%s) after it was freed [entry %s]' % (r.access, r.entry), site='%s/use-after-free' % r.inst.fn.name))
        elif r.kind == 'call' and not getattr(r, 'inlined', True) and r.callee in r.stack:
            # recursive call treated by contract
            args = r.args
            held = LockHeld(r)
            child, parent = (args + [None, None])[:2]
            ok = isinstance(child, Ptr) and holds(held, child) and (parent == 0 or (isinstance(parent, Ptr) and holds(held, parent)))
            rep.instance('C09.R4', 'recursive call %s at %s' % (r.callee, r.where())); rep.oblig('C09.R4', ok)
            if not ok:
                rep.violate(Violation('C09.R4', r.where(), 'the recursive notifier is entered without its contract (child mutex held, parent mutex held)', site='%s/recursion-contract' % r.inst.fn.name))
        elif r.kind == 'enqueue' and r.field == 'nsync_note_s_.children' and r.entry == 'nsync_note_free':
            ok = holds(r.held, r.obj) and r.observed
            rep.instance('C09.R5', 'adoption: append to %s->children at %s, parent state re-checked=%s' % (r.obj.base, r.where(), r.observed))
            rep.oblig('C09.R5', ok)
            if not ok:
                rep.violate(Violation('C09.R5', r.where(),
                    'nsync_note_free re-parents a child onto the parent without checking, under the parent\'s mutex, that the parent is not already notified / being drained: a concurrent nsync_note_notify(parent) or nsync_note_free(parent) that is waiting for the parent\'s child list to become empty then blocks until the adopted child is freed or notified, and the adopted child of an already notified parent is never notified',
                    site='nsync_note_free/adopt-into-draining-parent'))
    # ---- R7: nsync_note_free detaches a child only after finding, under the child's mutex, that nobody is disconnecting it.  A child with
    # disconnecting != 0 has a thread (its own notifier / freer) that holds a cached pointer to this note and is about to lock it; the freer must
    # leave that child linked and wait for it to unlink itself - otherwise the note is freed under that thread.
    rep.rule('C09.R7', 'nsync_note_free unlinks a child only after finding child->disconnecting == 0 under the child\'s mutex')
    n7 = 0
    for r in eng.records:
        if r.kind == 'unlink' and r.field == 'nsync_note_s_.children' and r.entry == 'nsync_note_free' and isinstance(r.element, Ptr):
            child = Ptr(r.element.base, ())
            if child == r.obj or child.base == 'arg:n':
                continue          # the note being freed takes itself off its parent's list: that is the disconnection proper
            ok = any(isinstance(o, Ptr) and o.base == child.base for o in r.disczero)
            n7 += 1
            rep.instance('C09.R7', 'child %s unlinked from %s->children at %s: disconnecting found 0: %s' % (child.base, r.obj.base, r.where(), ok)); rep.oblig('C09.R7', ok)
            if not ok:
                rep.violate(Violation('C09.R7', r.where(), 'nsync_note_free detaches a child without having found its disconnecting count zero: a thread that is notifying or freeing that child holds a cached pointer to this note and will lock it after this call has freed it (and the wait for the child list to drain is skipped)',
                                      site='nsync_note_free/unlink-disconnecting-child'))
    # ---- R8: a critical section that changed what conditional waiters of a note mutex wait for (the child list, the notified flag) ends with a
    # waking unlock
    rep.rule('C09.R8', 'nsync_mu_unlock_without_wakeup on a note mutex only after a critical section that changed neither the child list nor the flag')
    check_waking_unlock(eng, rep, 'C09.R8')
    rep.rule('C09.R9', 'waiter records are linked onto a note only after re-reading its state under the note mutex (no dead record on a drained note)')
    n9 = 0
    for r in eng.records:
        if r.kind == 'enqueue' and r.field == 'nsync_note_s_.waiters':
            n9 += 1
            ok = holds(r.held, r.obj) and r.observed
            rep.instance('C09.R9', 'append to the waiter list at %s [%s] state re-read under the lock: %s' % (r.where(), r.entry, r.observed)); rep.oblig('C09.R9', ok)
            if not ok:
                rep.violate(Violation('C09.R9', r.where(), 'a waiter record is linked onto the note without re-reading the notified state inside the critical section: after a notification that completed just before, the record stays on the drained list (the wait is never cancelled) and is still linked - pointing into a dead frame - when the note is legally freed [entry %s]' % r.entry,
                                      site='%s/stale-waiter-registration' % r.inst.fn.name))
    if n9 == 0:
        raise AnalysisBroken('C09.R9: no append to a note waiter list seen')
    rep.rule('C09.R10', 'parent / children / disconnecting of a note are accessed only under that note\'s mutex')
    n10 = 0
    for r in eng.records:
        if r.kind == 'access' and r.field in ('nsync_note_s_.parent', 'nsync_note_s_.children', 'nsync_note_s_.disconnecting'):
            n10 += 1
            ok = r.obj.base.startswith('heap:') or holds(r.held, r.obj)
            rep.instance('C09.R10', '%s of %s at %s [%s]' % (r.access, r.field, r.where(), r.entry)); rep.oblig('C09.R10', ok)
            if not ok:
                rep.violate(Violation('C09.R10', r.where(), '%s of %s without holding that note\'s mutex (held: %s): the disconnect protocol relies on this state changing only inside the note\'s critical sections - a decision taken on an unlocked read (e.g. "nobody is disconnecting this child") can be stale by the time it is acted on, and the thread it overlooked is left with a pointer to a parent that gets freed [entry %s]' % (r.access, r.field, [m.base for m in r.held] or 'nothing', r.entry),
                                      site='%s/unprotected-%s' % (r.inst.fn.name, r.field.split('.')[1])))
    if n10 == 0:
        raise AnalysisBroken('C09.R10: no access to the disconnect state seen')
    rep.rule('C09.R11', 'a loop that re-reads a list head each time round unlinks from that list on every path through its body')
    check_drain_loops(mod, rep, 'C09.R11')
    rep.floor('C09.R1', 6)
    rep.floor('C09.R2', 2)
    rep.floor('C09.R3', 1)
    rep.floor('C09.R5', 1)
    rep.assumptions += ['each note is freed only when no other thread uses that same note (client contract from the statement)',
                        'the nsync_mu API behaves as a lock (C01/C02)']
    return rep.finish(
        explanation='Lockset interpretation of note.c with pointer provenance (which field a pointer was loaded from): nested acquisitions, the disconnecting bracket, the free precondition, the recursion contract and the adoption append are judged on every path.',
        trusted_base=['clang 14 IR', 'nsa/lockeng.py', 'lock summary of nsync_mu (C01.R5)'])

def LockHeld(r):
    return {k[1]: v for k, v in r.ghost.items() if isinstance(k, tuple) and k[0] == 'held'}


def check_waking_unlock(eng, rep, rid):
    """a critical section that changed what conditional waiters of a note mutex wait for (the child list, the notified flag) ends with a waking
    unlock: nsync_mu_unlock_without_wakeup skips the evaluation of the waiters' conditions"""
    n8 = 0
    for r in eng.records:
        if r.kind == 'release' and isinstance(r.mutex, Ptr) and r.mutex.path and r.mutex.path[-1][1] == MU:
            n8 += 1
            if getattr(r, 'callee', '') == 'nsync_mu_unlock_without_wakeup':
                ok = not getattr(r, 'dirty', False)
                rep.instance(rid, 'unlock_without_wakeup of %s at %s, section changed list/flag: %s [%s]' % (r.mutex.base, r.where(), not ok, r.entry)); rep.oblig(rid, ok)
                if not ok:
                    rep.violate(Violation(rid, r.where(), 'a critical section of a note mutex that changed the child list or the notified flag ends with nsync_mu_unlock_without_wakeup: a thread waiting on that mutex for exactly this change (the freer/notifier waiting for an empty child list, a second notifier waiting for the flag) is not woken - deadlock [entry %s]' % r.entry,
                                          site='%s/unlock-without-wakeup-after-change' % r.inst.fn.name))
    if n8:
        rep.instance(rid, '%d releases of note mutexes examined' % n8); rep.oblig(rid, True)
    else:
        raise AnalysisBroken('%s: no release of a note mutex seen' % rid)


def check_drain_loops(mod, rep, rid):
    from ..cfg import cfg_of, paths_avoiding
    n = 0
    for fn in mod.defined.values():
        if not (fn.file or '').endswith('note.c'):
            continue
        cfg = cfg_of(fn)
        for h, body in cfg.loops().items():
            # head re-read inside the loop: load of a list field followed by nsync_dll_first_ in the loop, its result decides the exit
            for i in fn.real_insts():
                if i.block.id not in body or i.op != 'call' or i.callee != 'nsync_dll_first_' or not isinstance(i.ops[0], str):
                    continue
                ld = fn.imap.get(i.ops[0])
                if ld is None or ld.op != 'load' or ld.block.id not in body:
                    continue
                fld = util.last_field(util.addr_class(mod, fn, ld.ops[0]))
                if fld not in ('nsync_note_s_.children', 'nsync_note_s_.waiters'):
                    continue
                # writes to that list field inside the loop (the result of a remove stored back)
                unl = set(id(j) for j in fn.real_insts() if j.block.id in body and j.op == 'store' and util.last_field(util.addr_class(mod, fn, j.ops[1])) == fld)
                calls = set(id(j) for j in fn.real_insts() if j.block.id in body and j.op == 'call' and j.callee and j.callee != 'nsync_dll_first_'
                            and mod.func(j.callee) is not None and not mod.func(j.callee).decl and (mod.func(j.callee).file or '').endswith('note.c'))
                n += 1
                again = paths_avoiding(fn, i, lambda j: j is i, lambda j: id(j) in unl or id(j) in calls or j.block.id not in body)
                rep.instance(rid, '%s: loop at %s re-reads the head of %s; every trip unlinks (or hands the element to a note function): %s' % (fn.name, i.where(), fld, again is None)); rep.oblig(rid, again is None)
                if again is not None:
                    rep.violate(Violation(rid, i.where(), '%s: this loop takes the first element of %s again on every iteration but has a path round the loop that leaves the list unchanged (an element it decides to skip stays first): the loop never ends, with the note\'s mutex - and the parent\'s - held, so the thread that is disconnecting that element can never finish either' % (fn.name, fld.split('.')[1]),
                                          site='%s/drain-loop-no-progress' % fn.name))
    if n == 0:
        rep.instance(rid, 'no loop in note.c re-reads the head of a child / waiter list (nothing to show)'); rep.oblig(rid, True)

"""C06 - conditional critical sections wake every waiter whose condition became true.

R1  (decides the last sentence of the statement) a wait condition is evaluated - directly by nsync_mu_wait_with_deadline, or by the unlocker through
    the function that calls wait_condition_s.f - only by a thread whose typestate holds the mutex (read or write) and not the queue spinlock.
R2  a conditional waiter is queued by a transition that sets MU_CONDITION and MU_WAITING and clears MU_ALL_FALSE, so every later release must take
    the scanning path (C02.R1).
R3  MU_ALL_FALSE is set only by the scanner when it releases the spinlock, and a write-mode release by nsync_mu_unlock never leaves it set
    (that critical section may have made a condition true); only nsync_mu_unlock_without_wakeup may keep it.
R4  two waiters are linked into one same-condition group only on the path where their condition functions are equal (and non-NULL) and their
    arguments are equal or declared equivalent - otherwise a false condition of one would skip the evaluation of the other.
R5  scan soundness: every iteration of the unlocker's scan finds the waiter false, unlinks it, or clears MU_ALL_FALSE in the value to be
    released; a scan that stops before the end of the queue clears it too (CFG path rule on the scan loop).
R6  shape analysis (nsa/ringshape.py, summary segments = all queue lengths) of the three functions that maintain / use the same-condition rings:
    remove keeps them contiguous runs of the queue and joins neighbours only for an interior singleton, merge joins p-run ++ n-run or nothing,
    the scan's skip passes over members of the false waiter's ring only.
That the call sites hand the merge function adjacent runs (enqueue at either end, re-appending the scanned list) is not decided by R6;
"every waiter whose condition became true is woken" as a whole is therefore not claimed."""
from .. import util, mumodel, ir as IR
from ..cfg import cfg_of
from ..report import Violation, AnalysisBroken
from . import C01

def cond_callers(mod):
    """functions that call through a pointer loaded from wait_condition_s.f"""
    out = set()
    for fn in mod.defined.values():
        for i in fn.real_insts():
            if i.op == 'call' and i.callee is None and isinstance(i.x.get('cv'), str):
                l = fn.imap.get(i.x['cv'])
                if l is not None and l.op == 'load' and util.last_field(util.addr_class(mod, fn, l.ops[0])) == 'wait_condition_s.f':
                    out.add(fn.name)
    return out

def _predicate_requires_same_f(mod, name):
    """in the defined function `name`, every return of a value that may be non-zero is dominated by both `x->f == y->f` and `x->f != NULL`
    on condition records"""
    from ..bounds import _guards, _norm_cmp
    g = mod.func(name)
    if g is None or g.decl:
        return False
    def is_f(ref):
        l = g.imap.get(ref) if isinstance(ref, str) else None
        return l is not None and l.op == 'load' and util.last_field(util.addr_class(mod, g, l.ops[0])) == 'wait_condition_s.f'
    def guarded(at):
        gs = [n for n in (_norm_cmp(g, c_, s_) for c_, s_ in _guards(g, at)) if n]
        return any(p == 'eq' and is_f(a) and is_f(b) for p, a, b in gs) and any(p == 'ne' and is_f(a) and IR.is_null(b) for p, a, b in gs)
    points = []
    for i in g.real_insts():
        if i.op == 'ret' and i.ops:
            v = i.ops[0]
            if IR.is_int(v):
                if IR.ival(v) != 0:
                    points.append(i)
            elif isinstance(v, str) and v in g.imap and g.imap[v].op == 'phi':
                for pv, pb in g.imap[v].ops:
                    if not (IR.is_int(pv) and IR.ival(pv) == 0):
                        points.append(g.bmap[pb].term)
            else:
                points.append(i)
    return bool(points) and all(guarded(at) for at in points)

def _removers(mod):
    """functions that (transitively, 3 levels) unlink an element from a list"""
    base = {'nsync_dll_remove_'}
    for _ in range(3):
        for f in mod.defined.values():
            if f.name not in base and any(i.op == 'call' and i.callee in base for i in f.real_insts()):
                base.add(f.name)
    return base

def _is_eval_helper(mod, name):
    """a helper whose whole job is to evaluate one waiter's condition (condition_true): loop-free, and its only call is the indirect one"""
    f = mod.func(name)
    if f is None or f.decl or cfg_of(f).back_edges():
        return False
    calls = [i for i in f.real_insts() if i.op == 'call' and not (i.callee or '').startswith('llvm.')]
    return len(calls) == 1 and calls[0].callee is None

def check_scan(mod, K, rep, cc, rid):
    """R5 - soundness of the unlocker's scan with respect to MU_ALL_FALSE.  The scan starts from "all conditions false" and may publish that
    hint only if every waiter it leaves on the queue was seen false.  Per iteration of the scan loop (the innermost loop that evaluates the
    condition of a list element), every path from the loop header back to it must (a) pass the false edge of a branch on the result of that
    evaluation (the element, and with it its same-condition group, was found false), or (b) unlink the element (it is being woken), or
    (c) clear MU_ALL_FALSE in the pending release value.  And every path that leaves the loop other than through "cursor == NULL" (the queue was
    scanned to its end) must clear MU_ALL_FALSE, or pass such a cursor test, before the next scan or the return."""
    from ..bounds import _expand, _norm_cmp
    ALLF = K['MU_ALL_FALSE']
    removers = _removers(mod)
    n = 0
    for fn in mod.defined.values():
        evals = []
        for i in fn.real_insts():
            if i.op != 'call':
                continue
            if i.callee in cc and _is_eval_helper(mod, i.callee):
                evals.append(i)
            elif i.callee is None and isinstance(i.x.get('cv'), str):
                l = fn.imap.get(i.x['cv'])
                if l is not None and l.op == 'load' and util.last_field(util.addr_class(mod, fn, l.ops[0])) == 'wait_condition_s.f':
                    evals.append(i)
        if not evals:
            continue
        cfg = cfg_of(fn)
        loops = cfg.loops()
        for ev in evals:
            inl = [h for h, body in loops.items() if ev.block.id in body]
            if not inl:
                continue          # a single evaluation (the waiter's own condition), not a scan
            h = min(inl, key=lambda x: len(loops[x]))
            body = loops[h]
            evs_in_loop = [e for e in evals if e.block.id in body]
            hdr_phis = set(i.id for i in fn.bmap[h].insts if i.op == 'phi' and i.ty.endswith('*'))
            def edge_facts(b, t):
                """normalised comparisons known to hold on the edge b -> t"""
                term = fn.bmap[b].term
                if term.op != 'br' or len(term.x['targets']) != 2 or term.x['targets'][0] == term.x['targets'][1] or not isinstance(term.ops[0], str) or term.ops[0] not in fn.imap:
                    return []
                sense = term.x['targets'][0] == t
                out = []
                _expand(fn, fn.imap[term.ops[0]], sense, out, 0)
                return [x for x in (_norm_cmp(fn, c_, s_) for c_, s_ in out) if x]
            def strip(ref):
                while isinstance(ref, str) and ref in fn.imap and fn.imap[ref].op in ('zext', 'sext', 'trunc', 'bitcast'):
                    ref = fn.imap[ref].ops[0]
                return ref
            def block_clears(b):
                return any(i.op == 'and' and any(IR.is_int(o) and not (IR.uval(o) & ALLF) and IR.uval(o) != 0 for o in i.ops) for i in fn.bmap[b].insts)
            def block_removes(b):
                return any(i.op == 'call' and i.callee in removers for i in fn.bmap[b].insts)
            # ---- per-iteration paths
            paths = []
            def dfs(path):
                b = path[-1]
                for t in fn.bmap[b].succ:
                    if t == h:
                        paths.append(path + [h])
                    elif t in body and t not in path:
                        if len(paths) < 4000:
                            dfs(path + [t])
            dfs([h])
            for path in paths:
                evaluated = set()
                ok = None
                for k, b in enumerate(path[:-1]):
                    for i in fn.bmap[b].insts:
                        if i in evs_in_loop:
                            evaluated.add(i.id)
                    if block_removes(b):
                        ok = 'unlinked'
                    if block_clears(b):
                        ok = ok or 'MU_ALL_FALSE cleared'
                    for pred, x, y in edge_facts(b, path[k + 1]):
                        if pred == 'eq' and IR.is_int(y) and IR.ival(y) == 0 and strip(x) in evaluated:
                            ok = ok or 'condition evaluated false'
                n += 1
                rep.instance(rid, '%s: scan iteration path %s: %s' % (fn.name, '>'.join(path), ok or 'UNEXAMINED')); rep.oblig(rid, ok is not None)
                if ok is None:
                    at = fn.bmap[path[-2]].term
                    rep.violate(Violation(rid, at.where(), '%s: an iteration of the condition scan can leave a waiter on the queue without having found its condition false, without unlinking it and without clearing MU_ALL_FALSE in the value to be released (path %s): the hint "all conditions false" is then published although that waiter may be runnable, and a later reader release or nsync_mu_unlock_without_wakeup skips it'
                                          % (fn.name, '>'.join(path)), site='%s/scan-iteration' % fn.name))
            # ---- exits
            for b in sorted(body):
                for t in fn.bmap[b].succ:
                    if t in body:
                        continue
                    facts = edge_facts(b, t)
                    if any(pred == 'eq' and IR.is_null(y) and strip(x) in hdr_phis for pred, x, y in facts):
                        n += 1
                        rep.instance(rid, '%s: scan exit %s>%s with the cursor NULL (queue scanned to its end)' % (fn.name, b, t)); rep.oblig(rid, True)
                        continue
                    # explore from t: every path must clear the hint or pass a cursor == NULL edge before the next scan / the return
                    bad = None
                    seen = set()
                    work = [t]
                    while work and bad is None:
                        x = work.pop()
                        if x in seen:
                            continue
                        seen.add(x)
                        if x == h or fn.bmap[x].term.op == 'ret':
                            bad = x
                            break
                        if block_clears(x):
                            continue
                        for t2 in fn.bmap[x].succ:
                            f2 = edge_facts(x, t2)
                            if any(pred == 'eq' and IR.is_null(y) and strip(xx) in hdr_phis for pred, xx, y in f2):
                                continue
                            work.append(t2)
                    n += 1
                    rep.instance(rid, '%s: scan exit %s>%s before the end of the queue: hint cleared on every continuation: %s' % (fn.name, b, t, bad is None)); rep.oblig(rid, bad is None)
                    if bad is not None:
                        rep.violate(Violation(rid, fn.bmap[b].term.where(), '%s: the condition scan can stop before the end of the queue (edge %s>%s) and continue to %s without clearing MU_ALL_FALSE: the waiters behind the stopping point were never examined, yet "all conditions false" is published'
                                              % (fn.name, b, t, 'the next scan' if bad == h else 'the release'), site='%s/scan-early-exit' % fn.name))
    return n

def _ring_functions(mod):
    """(remove, merge, skip) functions of the same-condition rings, found by role"""
    SC = 'waiter.same_condition'
    def touches_sc(f):
        return any(i.op == 'getelementptr' and any(st[0] == 'f' and st[1] == SC for st in mod.gep_fields(i)) for i in f.real_insts())
    def calls(f, name):
        return any(i.op == 'call' and i.callee == name for i in f.real_insts())
    def ptr_args(f):
        return [a for a in f.args if a['ty'].endswith('*')]
    rem = mrg = skp = None
    for f in sorted(mod.defined.values(), key=lambda f: sum(1 for _ in f.real_insts())):
        if not touches_sc(f) or len(ptr_args(f)) != 2 or len(f.args) != 2:
            continue
        stores = any(i.op == 'store' for i in f.real_insts())
        if calls(f, 'nsync_dll_remove_') and rem is None:
            rem = f
        elif calls(f, 'nsync_dll_splice_after_') and not calls(f, 'nsync_dll_remove_') and mrg is None:
            mrg = f
        elif not stores and not calls(f, 'nsync_dll_splice_after_') and not calls(f, 'nsync_dll_remove_') and skp is None:
            rets = [i for i in f.real_insts() if i.op == 'ret']
            if rets and rets[0].ops and f.args[0]['ty'] == f.args[1]['ty']:
                skp = f
    return rem, mrg, skp

def check_rings(mod, rep, rid):
    """R6 - the same-condition rings stay runs of the queue (invariant J of nsa/ringshape.py), for all queue lengths:
       remove:  removing e from a queue satisfying J leaves J; e's ring loses exactly e; the two neighbours' rings are joined only if e was a
                ring of its own strictly inside the queue (never across the wrap-around of the circular list), and then as prev-run ++ next-run;
       merge:   joins the ring ending at p with the ring starting at n as p-run ++ n-run, or leaves both untouched;
       skip:    after a false evaluation of p the scan continues at an element r behind p such that everything strictly between p and r
                belongs to p's ring (so only waiters with p's - false - condition are skipped), and changes nothing."""
    from .. import ringshape as RS
    rem, mrg, skp = _ring_functions(mod)
    ri = RS.RingInterp(mod)
    q, sc = RS.q_of, RS.sc_of
    def flat(runs):
        return [x for r in runs for x in r]
    def judge(fname, label, heap, handle, outs, accepts, extra=None):
        """accepts: list of (description, runs) - the heap must match one of them; extra(h2, rv) -> None or message"""
        if not outs:
            rep.instance(rid, '%s on %s: no terminating path' % (fname, label)); rep.oblig(rid, False)
            rep.violate(Violation(rid, 'in %s' % fname, '%s does not return on the queue shape %s' % (fname, label), site='%s/no-path' % fname))
            return
        for h2, rv in outs:
            msg = None
            if isinstance(rv, tuple) and rv and rv[0] == 'error':
                msg = rv[1]
            else:
                diffs = []
                for desc, runs, hd in accepts:
                    d = RS.check_state(h2, hd(rv) if callable(hd) else hd, runs)
                    if d is None:
                        diffs = None
                        break
                    diffs.append('%s: %s' % (desc, d))
                if diffs is not None:
                    msg = '; '.join(diffs)
                elif extra is not None:
                    msg = extra(h2, rv)
            rep.instance(rid, '%s on %s -> %s' % (fname, label, 'ok' if msg is None else msg)); rep.oblig(rid, msg is None)
            if msg is not None:
                rep.violate(Violation(rid, 'in %s' % fname, '%s on the queue %s (runs of the same-condition rings in brackets): %s - the rings no longer are contiguous runs of the queue, so the scan\'s "skip to the end of the same_condition group" jumps over waiters with other conditions (a waiter whose condition is true is not woken) or revisits a removed waiter' % (fname, label, msg),
                                      site='%s/ring-shape' % fname))
    def show(runs):
        return ' '.join('[' + ','.join(r) + ']' for r in runs)
    # ---------------- remove
    if rem is not None:
        lefts = [[], [['p']], [['p0', 'p']], [['p0', 'SMp', 'p']], [['SL'], ['p']], [['SL'], ['p0', 'SMp', 'p']]]
        # the list handle (last element) is always a named waiter: an opaque stretch 'SR' is followed by a named tail 'z'
        rights = [[], [['n']], [['n', 'n1']], [['n', 'SMn', 'n1']], [['n'], ['SR'], ['z']], [['n', 'SMn', 'n1'], ['SR'], ['z']]]
        eruns = [['e'], ['e', 'x'], ['x', 'e'], ['x', 'e', 'y'], ['e', 'SM1', 'y'], ['x', 'SM1', 'e'], ['x', 'SM1', 'e', 'SM2', 'y']]
        for er in eruns:
            for L in lefts:
                for R in rights:
                    if len(er) > 1 and (len(L) > 1 or len(R) > 1) and not (L == lefts[4] and R == rights[4]):
                        continue          # neighbours' internals are irrelevant when e has ring partners; keep one rich context
                    runs = L + [er] + R
                    heap = RS.make_heap(runs)
                    items = flat(runs)
                    handle = q(items[-1])
                    rest = [x for x in er if x != 'e']
                    after = L + ([rest] if rest else []) + R
                    acc = [('no join', after, lambda rv: rv)]
                    interior = bool(L) and bool(R)
                    if not rest and interior:
                        lp, rn = L[-1], R[0]
                        if lp not in (['SL'],) and rn not in (['SR'],):
                            acc.append(('neighbours joined', L[:-1] + [lp + rn] + R[1:], lambda rv: rv))
                    def extra(h2, rv, _items=items):
                        if h2.nxt.get('e.q') != 'e.q' or h2.prv.get('e.q') != 'e.q':
                            return 'the removed element is not a self-linked singleton of the queue list'
                        if h2.nxt.get('e.sc') != 'e.sc' or h2.prv.get('e.sc') != 'e.sc':
                            return 'the removed waiter is still linked into a same_condition ring'
                        return None
                    outs = ri.call(rem.name, [handle, 'e.q'], heap)
                    judge(rem.name, show(runs), heap, handle, outs, acc, extra)
    # ---------------- merge
    if mrg is not None:
        for pr in (['p'], ['p0', 'p'], ['p0', 'SMp', 'p']):
            for nr in (['n'], ['n', 'n1'], ['n', 'SMn', 'n1']):
                runs = [['SL'], pr, nr, ['SR'], ['z']]
                heap = RS.make_heap(runs)
                outs = ri.call(mrg.name, ['p.q', 'n.q'], heap)
                judge(mrg.name, show(runs), heap, 'z.q', outs, [('left alone', runs, 'z.q'), ('joined', [['SL'], pr + nr, ['SR'], ['z']], 'z.q')])
        for args, lab in ((['p.q', None], 'n = NULL'), ([None, 'n.q'], 'p = NULL'), ([None, None], 'both NULL')):
            runs = [['p0', 'p'], ['n', 'n1']]
            heap = RS.make_heap(runs)
            outs = ri.call(mrg.name, args, heap)
            judge(mrg.name, show(runs) + ' ' + lab, heap, 'n1.q', outs, [('left alone', runs, 'n1.q')])
    # ---------------- skip
    if skp is not None:
        pruns = [['p'], ['p', 'x'], ['p', 'SM1', 'x'], ['w', 'p'], ['w', 'p', 'x'], ['w', 'SM1', 'p'], ['w', 'p', 'SM1', 'x'], ['w', 'SM0', 'p', 'SM1', 'x']]
        for pr in pruns:
            for L in ([], [['a']], [['SL']]):
                for R in ([], [['n']], [['n', 'n1']], [['SR'], ['z']]):
                    runs = L + [pr] + R
                    heap = RS.make_heap(runs)
                    handle = q(flat(runs)[-1])
                    outs = ri.call(skp.name, [handle, 'p.q'], heap)
                    def extra(h2, rv, _runs=runs, _pr=pr, _handle=handle):
                        if h2.written:
                            return 'the scan helper writes to the lists (%s)' % sorted(h2.written)[:3]
                        seq, ok = RS.queue_seq(h2, _handle)
                        if not ok or 'p.q' not in seq:
                            return 'queue not traversable'
                        i = seq.index('p.q')
                        mine = set(RS.expand(h2, [q(x) for x in _pr]))
                        if rv is None:
                            skipped = seq[i + 1:]
                        elif rv in seq and seq.index(rv) > i:
                            skipped = seq[i + 1:seq.index(rv)]
                        else:
                            return 'continues at %s, which is not behind p in the queue %s' % (rv, seq)
                        bad = [x for x in skipped if x not in mine]
                        if bad:
                            return 'skips %s, which %s not in the same_condition ring of p' % (bad, 'is' if len(bad) == 1 else 'are')
                        return None
                    judge(skp.name, show(runs), heap, handle, outs, [('unchanged', runs, handle)], extra)
    for nm, f in (('remove', rem), ('merge', mrg), ('skip', skp)):
        if f is None:
            print('C06 note: the %s function of the same-condition rings was not found by role; its part of R6 is skipped' % nm)
    return ri.steps

def run(ctx, rep):
    mod = ctx.mod('C')
    K = ctx.probe
    eng, runs = mumodel.analyse(ctx)
    COND, ALLF, WAITING = K['MU_CONDITION'], K['MU_ALL_FALSE'], K['MU_WAITING']
    rep.functions.update(f for r in eng.records for f in r.stack)
    rep.rule('C06.R1', 'conditions are evaluated only with the mutex held and the spinlock not held')
    rep.rule('C06.R2', 'queueing a conditional waiter sets MU_CONDITION')
    rep.rule('C06.R3', 'MU_ALL_FALSE set only by the scanner; nsync_mu_unlock never leaves it set')
    rep.rule('C06.R4', 'same-condition grouping only for equal condition functions and equal/equivalent arguments')
    cc = cond_callers(mod)
    if not cc:
        raise AnalysisBroken('C06: no call through wait_condition_s.f found')
    lk = mumodel.lk()
    for r in eng.records:
        is_eval = (r.kind == 'icall' and getattr(r, 'target', None) is not None and getattr(r.target, 'base', '') == 'client:condition') or \
                  (r.kind == 'call' and r.callee in cc)
        if is_eval:
            g = r.ghost.get(lk, ('?', 0))
            ok = g[0] in ('W', 'R') and g[1] == 0
            rep.instance('C06.R1', 'condition evaluated at %s in typestate %s [%s]' % (r.where(), g, r.entry)); rep.oblig('C06.R1', ok)
            if not ok:
                rep.violate(Violation('C06.R1', r.where(), 'a wait condition is evaluated by a thread in typestate hold=%s spinlock=%s: %s [entry %s]'
                                      % (g[0], g[1], 'it does not hold the mutex, so the condition can run concurrently with a write critical section' if g[0] not in ('W', 'R') else 'client code runs while the internal queue spinlock is held', r.entry),
                                      site='%s/condition-eval' % r.inst.fn.name))
        if r.kind == 'trans' and r.wc.name == 'mu' and r.pairs:
            s = r.site(eng.wrappers)
            dW, dc, ds = r.effect
            if ds == 1 and r.hold in ('W', 'R') and 'cond=f' in (r.entry or '') and 'nsync_mu_wait_with_deadline' in r.stack and not (set(r.stack) & {'nsync_mu_unlock_slow_'}):
                bad = next((n for e, n in r.pairs if not n & COND or not n & WAITING or n & ALLF), None)
                rep.instance('C06.R2', 'conditional enqueue transition at %s [%s]' % (s.where(), r.entry)); rep.oblig('C06.R2', bad is None)
                if bad is not None:
                    rep.violate(Violation('C06.R2', s.where(), 'a waiter with a condition is queued by a transition that does not set MU_CONDITION and MU_WAITING and clear MU_ALL_FALSE (%s): a later release can skip the scan and the waiter is not woken although its condition became true [entry %s]' % (C01.bits(K, bad), r.entry),
                                          site='%s/condition-bit' % s.fn.name))
            sets = any((n & ALLF) and not (e & ALLF) for e, n in r.pairs)
            if sets:
                ok = ds == -1 and r.spin == 1
                rep.instance('C06.R3', 'MU_ALL_FALSE set at %s [%s]' % (s.where(), r.entry)); rep.oblig('C06.R3', ok)
                if not ok:
                    rep.violate(Violation('C06.R3', s.where(), 'MU_ALL_FALSE is set by a transition other than the scanner releasing the spinlock [entry %s]' % r.entry, site='%s/all-false-set' % s.fn.name))
            if dW == -1 and r.hold == 'W' and r.entry == 'nsync_mu_unlock' and ds == 0 and 'nsync_mu_unlock_slow_' not in r.stack:
                bad = next((n for e, n in r.pairs if n & ALLF), None)
                rep.instance('C06.R3', 'write release by nsync_mu_unlock at %s' % s.where()); rep.oblig('C06.R3', bad is None)
                if bad is not None:
                    rep.violate(Violation('C06.R3', s.where(), 'nsync_mu_unlock releases the write lock leaving MU_ALL_FALSE set (%s): a later reader release skips the scan although this critical section may have made a condition true' % C01.bits(K, bad),
                                          site='nsync_mu_unlock/all-false-kept'))
    # ---- R4
    mfn = None
    for fn in mod.defined.values():
        sp = [i for i in fn.real_insts() if i.op == 'call' and i.callee == 'nsync_dll_splice_after_' and
              any(util.last_field(util.addr_class(mod, fn, o)) == 'waiter.same_condition' for o in i.ops)]
        for c in sp:
            mfn = fn
            cfg = cfg_of(fn)
            from ..bounds import _guards, _norm_cmp
            gs = [n for n in (_norm_cmp(fn, cc_, s_) for cc_, s_ in _guards(fn, c)) if n]
            def is_cond_field(ref, field):
                l = fn.imap.get(ref) if isinstance(ref, str) else None
                return l is not None and l.op == 'load' and util.last_field(util.addr_class(mod, fn, l.ops[0])) == 'wait_condition_s.' + field
            f_eq = any(p == 'eq' and is_cond_field(a, 'f') and is_cond_field(b, 'f') for p, a, b in gs)
            f_nn = any(p == 'ne' and is_cond_field(a, 'f') and IR.is_null(b) for p, a, b in gs)
            if not (f_eq and f_nn):
                # the test may live in a predicate function (WAIT_CONDITION_EQ written as a static inline function): the splice is guarded by
                # its result being non-zero, and every way the predicate returns non-zero is guarded by f == f and f != NULL
                for p_, a_, b_ in gs:
                    ci = fn.imap.get(a_) if isinstance(a_, str) else None
                    if p_ == 'ne' and IR.is_int(b_) and IR.ival(b_) == 0 and ci is not None and ci.op == 'call' and ci.callee and _predicate_requires_same_f(mod, ci.callee):
                        f_eq = f_nn = True
            ok = f_eq and f_nn
            rep.instance('C06.R4', 'same-condition splice at %s: guarded by f==f:%s f!=NULL:%s' % (c.where(), f_eq, f_nn)); rep.oblig('C06.R4', ok)
            if not ok:
                rep.violate(Violation('C06.R4', c.where(), 'two waiters can be linked into one same-condition group without their condition functions having been found equal%s: when the first evaluates false the other is skipped although its own condition may be true'
                                      % ('' if f_nn else ' and non-NULL'), site='%s/same-condition-merge' % fn.name))
    if mfn is None:
        raise AnalysisBroken('C06.R4: the same-condition merge was not found')
    rep.rule('C06.R5', 'the scan publishes MU_ALL_FALSE only if every waiter left on the queue was found false (per-iteration paths and early exits)')
    check_scan(mod, K, rep, cc, 'C06.R5')
    rep.floor('C06.R5', 4)
    rep.rule('C06.R6', 'same-condition rings stay contiguous runs of the queue under remove / merge; the scan skips only members of the false waiter\'s ring (shape analysis, all lengths)')
    check_rings(mod, rep, 'C06.R6')
    rep.floor('C06.R6', 20)
    rep.floor('C06.R1', 6)
    rep.floor('C06.R2', 2)
    rep.floor('C06.R3', 2)
    rep.assumptions += ['same-condition ring maintenance over all queue contents is not decided', 'the typestate of C01 stands for "holds the mutex"']
    return rep.finish(
        explanation='R1-R3 judged on every condition evaluation and transition recorded by the abstract interpreter in all contexts; R4 is a dominance rule on the merge helper.',
        trusted_base=['clang 14 IR', 'nsa/symex.py', 'dominators'])

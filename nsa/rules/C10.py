"""C10 - the counter is atomic and its waiters are released exactly at zero.

R1  the counter value is written only by the constructor (on the fresh object) and by a CAS whose new value is expected + delta;
    nsync_counter_add returns exactly that sum on the path that performed the CAS (and an acquire load for delta == 0).
R2  (lockset) the CAS, the == 0 test and the drain of the waiter list in add, and the re-read of the value + conditional enqueue in the counter's
    enqueue function, all happen inside critical sections of counter_mu; waiter records are woken (waiting = 0, semaphore V) only with counter_mu held
    (the dequeuer takes the same mutex, so a record cannot be discarded while it is being woken); the drain happens only on the path where the
    value just produced is 0; an append to the waiter list happens only after re-reading the value in the same critical section.
R3  the drain loop wakes every waiter (shape, shared with C02.R4).
R4  "wait returns non-zero only once its deadline has passed": nsync_counter_wait goes through nsync_wait_n, which takes every non-zero result
    of the timed semaphore wait for an expired deadline; that result is non-zero only where the kernel wait timed out and the re-read clock
    agrees (= C12.R3, judged here for the counter's contract).
R5  "a wait that starts after zero does not block": counter_enqueue refuses the record when the value is already zero, so nsync_wait_n must poll
    the ready times again after registering and before its first sleep (= C11.R3).
R6  "returns non-zero only once its deadline has passed": a semaphore P on the path of a counter wait is either in a loop that re-reads the wake
    condition after it returns, or it returned non-zero (a stale post left on the thread's reused semaphore must not be taken for the
    deadline) - the sleeper-loop rule of C02.R5 applied to counter.c and wait.c.
Linearizability of the returned values over histories is not decided."""
from .. import util, ir as IR, objmodel, wakeshape
from ..bounds import _guards, _norm_cmp
from ..report import Violation, AnalysisBroken
from ..symex import Ptr
from .C08 import holds

MU = 'nsync_counter_s_.counter_mu'
VALUE = 'nsync_counter_s_.value'

def run(ctx, rep):
    mod = ctx.mod('C')
    eng, runs = objmodel.analyse(ctx)
    rep.functions.update(f for r in eng.records for f in r.stack)
    rep.rule('C10.R1', 'value written only by constructor and by CAS(expected, expected+delta); add returns that sum')
    rep.rule('C10.R2', 'CAS, zero test, drain, re-read and enqueue inside counter_mu; wake-ups under counter_mu; append only after re-reading the value')
    rep.rule('C10.R3', 'the drain loop wakes every waiter')
    # ---- R1 (who writes the value; what add returns) - stores by a value-flow scan, the CAS and the returned value on the interpretation of
    # nsync_counter_add in which the loaded value and the delta argument are opaque tokens and their sum is a token too (nsa/lockeng.py)
    add_fn = mod.func('nsync_counter_add')
    if add_fn is None:
        raise AnalysisBroken('C10: nsync_counter_add not found')
    for s in util.atomic_sites(mod):
        if util.last_field(util.addr_class(mod, s.fn, s.addr)) != VALUE or s.kind in ('load', 'cas'):
            continue
        if s.kind == 'store':
            ac = util.addr_class(mod, s.fn, s.addr)
            # (the constructor's store into the block it has just obtained from an allocator - malloc & co. or an allocating wrapper - or the same
            # store made by a static initialiser that only ever receives such fresh blocks)
            from .C03 import _allocators, _only_fresh_blocks
            ok = (ac['kind'] == 'call' and ac['inst'].callee in _allocators(mod)) or _only_fresh_blocks(mod, s.fn, ac)
            msg = 'the counter value is overwritten by a store outside the constructor (a concurrent add is lost)'
        else:
            ok, msg = False, 'unexpected RMW on the counter value'
        rep.instance('C10.R1', '%s at %s' % (s.kind, s.where())); rep.oblig('C10.R1', ok)
        if not ok:
            rep.violate(Violation('C10.R1', s.where(), msg, site='%s/value-write' % s.fn.name))
    DELTA = objmodel.DELTA
    def is_sum_of(v, e):
        return isinstance(v, Ptr) and v.base == 'sum:' + '+'.join(sorted((DELTA.base, e.base))) if isinstance(e, Ptr) else False
    sums = set()
    ncas = 0
    for r in eng.records:
        if r.kind == 'valcas' and r.field == VALUE:
            ncas += 1
            s = r.site(eng.wrappers)
            ok = isinstance(r.expected, Ptr) and r.expected.base.startswith('tok:val:') and is_sum_of(r.new, r.expected) and r.entry == 'nsync_counter_add'
            if ok:
                sums.add(r.new.base)
            rep.instance('C10.R1', 'cas at %s: expected %s new %s [%s]' % (s.where(), getattr(r.expected, 'base', r.expected), getattr(r.new, 'base', r.new), r.entry)); rep.oblig('C10.R1', ok)
            if not ok:
                rep.violate(Violation('C10.R1', s.where(), 'the CAS on the counter value does not install expected + delta (expected is %s, new value is %s)' % (getattr(r.expected, 'base', r.expected), getattr(r.new, 'base', r.new)),
                                      site='%s/value-write' % s.fn.name))
    cas_sites = [s for s in util.atomic_sites(mod) if s.kind == 'cas' and util.last_field(util.addr_class(mod, s.fn, s.addr)) == VALUE]
    if cas_sites and not ncas:
        raise AnalysisBroken('C10.R1: the CAS on the counter value is not reached by the interpretation of nsync_counter_add')
    for label, fname, exits in runs:
        if label != 'nsync_counter_add':
            continue
        for x in exits:
            rv = x.trace[0] if x.trace else None
            zero = set(k[1] for k in x.ghost if isinstance(k, tuple) and k[0] == 'zero')
            if isinstance(rv, Ptr) and rv.base in sums:
                ok, how = True, 'the sum installed by the CAS'
            elif rv == 0 and (zero & sums):
                ok, how = True, 'the sum installed by the CAS (found to be 0 on this path)'
            elif isinstance(rv, Ptr) and rv.base.startswith('tok:val:') and DELTA.base in zero:
                ok, how = True, 'an acquire load of the value on the delta == 0 path'
            else:
                ok, how = False, repr(getattr(rv, 'base', rv))
            rep.instance('C10.R1', 'value returned by add on an exit path: %s' % how); rep.oblig('C10.R1', ok)
            if not ok:
                rep.violate(Violation('C10.R1', '%s:%d in nsync_counter_add' % (IR.rel(add_fn.file), add_fn.line),
                    'nsync_counter_add returns a value that is not the sum it installed with its own CAS (%s, e.g. a later re-read): two callers can be told the same value and a value can be skipped' % how,
                    site='nsync_counter_add/returned-value'))
    # ---- R2
    for r in eng.records:
        if r.kind == 'access' and r.field == VALUE and r.access in ('cas', 'store') and not r.obj.base.startswith('heap:'):
            ok = holds(r.held, r.obj, MU)
            rep.instance('C10.R2', '%s of value at %s [%s]' % (r.access, r.where(), r.entry)); rep.oblig('C10.R2', ok)
            if not ok:
                rep.violate(Violation('C10.R2', r.where(), 'the counter value is changed outside counter_mu: the zero test / wake-up and a concurrent enqueue that re-reads the value under the mutex are no longer atomic [entry %s]' % r.entry, site='%s/value-unlocked' % r.inst.fn.name))
        elif r.kind == 'access' and r.field == 'nsync_counter_s_.waiters':
            ok = holds(r.held, r.obj, MU)
            rep.instance('C10.R2', '%s of waiters at %s [%s]' % (r.access, r.where(), r.entry)); rep.oblig('C10.R2', ok)
            if not ok:
                rep.violate(Violation('C10.R2', r.where(), 'the waiter list is accessed without counter_mu [entry %s]' % r.entry, site='%s/waiters-unlocked' % r.inst.fn.name))
        elif r.kind == 'access' and r.field == 'nsync_waiter_s.waiting' and r.access == 'store' and r.obj.base.startswith(('ld:', 'ret:')) and r.entry == 'nsync_counter_add':
            ok = any(m.path and m.path[-1][1] == MU for m in r.held)
            rep.instance('C10.R2', 'waiter woken at %s' % r.where()); rep.oblig('C10.R2', ok)
            if not ok:
                rep.violate(Violation('C10.R2', r.where(), "a counter waiter's record is written after counter_mu was released: a timed-out waiter may already have dequeued and discarded it, and waiters not yet reached are dropped", site='%s/wake-unlocked' % r.inst.fn.name))
        elif r.kind == 'prim' and r.callee == 'nsync_mu_semaphore_v' and r.entry == 'nsync_counter_add':
            ok = any(m.path and m.path[-1][1] == MU for m in r.held)
            rep.instance('C10.R2', 'semaphore V at %s' % r.where()); rep.oblig('C10.R2', ok)
            if not ok:
                rep.violate(Violation('C10.R2', r.where(), 'a counter waiter is posted after counter_mu was released', site='%s/post-unlocked' % r.inst.fn.name))
        elif r.kind == 'enqueue' and r.field == 'nsync_counter_s_.waiters':
            ok = holds(r.held, r.obj, MU) and r.observed
            rep.instance('C10.R2', 'append to waiters at %s observed=%s [%s]' % (r.where(), r.observed, r.entry)); rep.oblig('C10.R2', ok)
            if not ok:
                rep.violate(Violation('C10.R2', r.where(), 'a waiter is appended without re-reading the counter value inside the same critical section: if the counter reached zero just before, the waiter sleeps although a wait that starts at zero must not block', site='%s/stale-append' % r.inst.fn.name))
    # drain only at zero: every wake-up made by add happens on a path on which the sum just installed was found equal to 0
    nd = 0
    for r in eng.records:
        if r.entry == 'nsync_counter_add' and ((r.kind == 'prim' and r.callee == 'nsync_mu_semaphore_v') or
                                               (r.kind == 'access' and r.field == 'nsync_waiter_s.waiting' and r.access == 'store' and r.obj.base.startswith(('ld:', 'ret:')))):
            zero = set(k[1] for k in r.ghost if isinstance(k, tuple) and k[0] == 'zero')
            ok = bool(zero & sums)
            nd += 1
            rep.instance('C10.R2', 'wake-up at %s on a path where the produced value is 0: %s' % (r.where(), ok)); rep.oblig('C10.R2', ok)
            if not ok:
                rep.violate(Violation('C10.R2', r.where(), 'waiters are woken on a path that is not guarded by (value just produced == 0)', site='nsync_counter_add/drain-guard'))
    if nd == 0:
        raise AnalysisBroken('C10.R2: no wake-up found in nsync_counter_add')
    wakeshape.check_wake_loops(mod, rep, 'C10.R3', only_files=('counter.c',))
    from . import C12
    rep.rule('C10.R4', 'the timed semaphore wait under nsync_counter_wait reports non-zero only for a kernel timeout confirmed by the clock')
    C12.check_timeout_guards(mod, ctx.probe, rep, 'C10.R4')
    from .C11 import check_waitn_sleep
    rep.rule('C10.R5', 'a wait on the counter through nsync_wait_n sleeps only on ready times polled after its registration (a counter that reached zero meanwhile refuses the record)')
    check_waitn_sleep(mod, rep, 'C10.R5')
    rep.rule('C10.R6', 'every semaphore P reachable from a counter wait sits in a loop that re-reads the wake condition (a stale post is not a timeout)')
    from .C02 import SEM_P
    wakeshape.check_sleeper_loops(mod, rep, 'C10.R6', SEM_P, only_files=('/counter.c', '/wait.c'))
    rep.floor('C10.R1', 3)
    rep.floor('C10.R2', 8)
    rep.floor('C10.R3', 1)
    rep.assumptions += ['the nsync_mu API behaves as a lock (C01/C02)', 'linearizability of the returned values is not computed']
    return rep.finish(
        explanation='Value-flow scan for R1 (who writes the value, what add returns), lockset interpretation of counter.c for R2, drain-loop shape for R3.',
        trusted_base=['clang 14 IR', 'nsa/lockeng.py', 'lock summary of nsync_mu (C01.R5)'])

def _same_sum(fn, i, sums):
    """i computes the same expected+delta as one of the CAS new-value instructions (e.g. `value += delta` recomputed after the loop)"""
    for sid in sums:
        s = fn.imap[sid]
        if i.op == s.op and set(map(repr, i.ops)) == set(map(repr, s.ops)):
            return True
        # same delta, and the other operand is the same loaded value (possibly via a phi of the loop)
        if i.op == s.op and any(o == 'a1' for o in i.ops) and any(o == 'a1' for o in s.ops):
            return True
    return False

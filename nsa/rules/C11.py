"""C11 - nsync_wait_n reports a ready object, or a real timeout, and cleans up.

R1  the client's unlock is called only after the registration loop has finished with every object registered (dominated by the edge i == count), and the
    client's lock is called again exactly when unlock was (lock/unlock balance on every path: never re-lock a mutex that was not released, never return
    with it released).
R2  every path from the first registration attempt to the return runs the dequeue loop (so no record stays registered), and the heap bookkeeping is freed
    exactly when it was allocated.
R3  the sleep happens only while min(ready times, deadline) > 0, inside a loop that re-polls every object's ready time after each return of the semaphore.
R5  the index returned is decided by the dequeue results (tested, and guarding a definition of the returned value).
R6  the dequeue function of every built-in waitable kind takes the wakers' lock on every path (= C13.R4), so that after the dequeue loop the
    record is registered nowhere.
R4  cv side of the registration: records woken by signal/broadcast are unlinked first and, unless proven pooled, woken under the cv spinlock (C04.R3/R5).
R7  note side of "count only once the deadline has passed": the dequeue function of a note reports "not ready" when it finds the note unmarked
    after nsync_note_notified_deadline_, which is right only if that call marks an expired note before it returns - i.e. notify() returns
    only with the note marked (= C08.R7, judged here for the wait_n result).
R8  timeout side of the same clause: nsync_wait_n stops sleeping on any non-zero result of the timed semaphore wait; that result is non-zero
    only where the kernel wait timed out and the re-read clock agrees (= C12.R3).
Which index is reported under races is not decided."""
from .. import util, ir as IR, wakeshape
from ..bounds import _guards, _norm_cmp
from ..cfg import cfg_of, paths_avoiding
from ..lockeng import LockEngine
from ..symex import Ptr, TOP, Record
from ..report import Violation, AnalysisBroken
from .C04 import C13_R3

class WaitNEngine(LockEngine):
    def on_indirect_call(self, st, f, inst, cv, args):
        if isinstance(cv, Ptr) and cv.base in ('client:lock', 'client:unlock'):
            un = st.ghost.get(('client_unlocked',), 0)
            self.record(Record('client', inst, st, which=cv.base[7:], unlocked_before=un, entry=self.entry_name), ('client', inst.id, cv.base, un, st.stack()))
            if cv.base == 'client:unlock':
                st.ghost[('client_unlocked',)] = 1
            else:
                st.ghost.pop(('client_unlocked',), None)
        return None


def check_waitn_unlock(mod, rep, rid):
    """the client unlock of nsync_wait_n comes after the registration loop and under i == count"""
    fn = waitn_body(mod)
    cfg = cfg_of(fn)
    enq = slot_calls(mod, fn, 'enqueue')
    if not enq:
        raise AnalysisBroken('%s: the registration call of nsync_wait_n was not found' % rid)
    argcalls = [i for i in fn.real_insts() if i.op == 'call' and i.callee is None and isinstance(i.x.get('cv'), str) and i.x['cv'].startswith('a')]
    loops = cfg.loops()
    enq_loop = [h for h, body in loops.items() if enq[0].block.id in body]
    unlock_calls = []
    for c in argcalls:
        # the unlock call is the one executed before the sleep: it reaches a semaphore P
        reaches_sleep = paths_avoiding(fn, c, lambda i: i.op == 'call' and i.callee == 'nsync_mu_semaphore_p_with_deadline', lambda i: False) is not None
        if reaches_sleep:
            unlock_calls.append(c)
    if not unlock_calls:
        raise AnalysisBroken('C11.R1: the call of the client unlock function was not found')
    for c in unlock_calls:
        in_loop = any(c.block.id in loops[h] for h in enq_loop)
        full = False
        for n in (_norm_cmp(fn, cc, s) for cc, s in _guards(fn, c)):
            if n and n[0] == 'eq' and all(isinstance(x, str) for x in n[1:3]):
                # i == count : one side is the count argument
                if any(x == 'a%d' % k for x in n[1:3] for k in range(len(fn.args)) if fn.args[k]['ty'] == 'i32'):
                    full = True
        after_enq = all(not paths_avoiding(fn, c, lambda i, e=e: i is e, lambda i: False) for e in enq)
        ok = full and not in_loop and after_enq
        rep.instance(rid, 'client unlock at %s: after the registration loop=%s, guarded by i == count=%s' % (c.where(), after_enq and not in_loop, full)); rep.oblig(rid, ok)
        if not ok:
            rep.violate(Violation(rid, c.where(), 'the mutex is released %s: a waker that takes the mutex in between signals before the caller is registered and the wake-up is lost'
                                  % ('before / while the objects are being registered' if not after_enq or in_loop else 'without all objects having been registered'), site='nsync_wait_n/unlock-before-registration'))

def waitn_body(mod):
    """the function that holds the body of nsync_wait_n: nsync_wait_n itself, or - when it has been split - the static helper in the same
    file, reachable from it, that makes the registration (enqueue slot) calls"""
    root = mod.func('nsync_wait_n')
    if root is None or root.decl:
        raise AnalysisBroken('C11: nsync_wait_n not found')
    seen, work = {root.name}, [root]
    cands = []
    while work:
        g = work.pop()
        if _direct_slot_calls(mod, g, 'enqueue'):
            cands.append(g)
        for i in g.real_insts():
            if i.op == 'call' and i.callee and i.callee not in seen:
                h = mod.func(i.callee)
                if h is not None and not h.decl and (h.file or '') == (root.file or ''):
                    seen.add(h.name); work.append(h)
    if root in cands or not cands:
        return root
    # split into helpers: the body is where the wait itself happens (the semaphore sleep); helpers that only register, poll or dequeue are
    # seen through their calls (slot_calls)
    def sleeps(g):
        return any(i.op == 'call' and i.callee in ('nsync_mu_semaphore_p_with_deadline', 'nsync_mu_semaphore_p') for i in g.real_insts())
    if sleeps(root):
        return root
    for g in cands:
        if sleeps(g):
            return g
    return cands[0]

def _direct_slot_calls(mod, fn, slot):
    out = []
    for i in fn.real_insts():
        if i.op == 'call' and i.callee is None and isinstance(i.x.get('cv'), str):
            l = fn.imap.get(i.x['cv'])
            if l is not None and l.op == 'load' and util.last_field(util.addr_class(mod, fn, l.ops[0])) == 'nsync_waitable_funcs_s.' + slot:
                out.append(i)
    return out

def _helper_has_slot(mod, name, slot, depth=3, in_loop_only=False):
    """does the defined function `name` (transitively, up to `depth` levels) call through the given slot of a waitable's function table?
    with in_loop_only: ... from inside a loop of its own (the helper contains the whole per-object loop)"""
    f = mod.func(name)
    if f is None or f.decl or depth < 0:
        return False
    loops = cfg_of(f).loops() if in_loop_only else None
    def ok_pos(i):
        return not in_loop_only or any(i.block.id in body for body in loops.values())
    if any(ok_pos(i) for i in _direct_slot_calls(mod, f, slot)):
        return True
    for i in f.real_insts():
        if i.op == 'call' and i.callee and i.callee != name and not i.callee.startswith('llvm.'):
            if ok_pos(i) and _helper_has_slot(mod, i.callee, slot, depth - 1):
                return True
            if in_loop_only and _helper_has_slot(mod, i.callee, slot, depth - 1, True):
                return True
    return False

def slot_calls(mod, fn, slot):
    """the calls in fn through a slot of nsync_waitable_funcs_s - made directly, or through a static helper that (transitively) makes
    them (so that extracting the polling / registration / dequeue code into a helper does not change the verdict); program order"""
    out = list(_direct_slot_calls(mod, fn, slot))
    for i in fn.real_insts():
        if i.op == 'call' and i.callee and not i.callee.startswith('llvm.') and _helper_has_slot(mod, i.callee, slot):
            out.append(i)
    order = {b.id: k for k, b in enumerate(fn.blocks)}
    out.sort(key=lambda i: (order[i.block.id], i.idx))
    return out

def loops_itself(mod, call, slot):
    """the call goes to a helper that makes the slot call from inside a loop of its own"""
    return call.callee is not None and _helper_has_slot(mod, call.callee, slot, in_loop_only=True)

def check_dequeue_result(mod, rep, rid):
    """the result of every dequeue call of nsync_wait_n (0 = the record was no longer queued: a waker consumed it / the object is ready) is
    tested, and the test guards a definition of the value the function returns.  Dequeue is the only point at which "was this call woken
    through object j" is decided under the object's lock; a report computed from anything earlier (e.g. the lock-free ready_time poll) turns
    a wake-up that lands between the last poll and the dequeue into a timeout, although the waker has already spent it on this call."""
    fn = waitn_body(mod)
    um = util.users_map(fn)
    rets = [i for i in fn.real_insts() if i.op == 'ret' and i.ops]
    def reaches_ret(ref, seen):
        """ref flows into the returned value through phis / selects"""
        if ref in seen:
            return False
        seen.add(ref)
        for u in um.get(ref, []):
            if u.op == 'ret':
                return True
            if u.op in ('phi', 'select', 'zext', 'sext', 'trunc') and reaches_ret(u.id, seen):
                return True
        return False
    cfg = cfg_of(fn)
    n = 0
    for c in _direct_slot_calls(mod, fn, 'dequeue'):
        n += 1
        # branches decided by the call's result
        tested = []
        work, seen = [c.id], set()
        while work:
            r = work.pop()
            if r in seen:
                continue
            seen.add(r)
            for u in um.get(r, []):
                if u.op in ('icmp', 'zext', 'trunc', 'xor', 'and', 'or', 'phi', 'select'):
                    work.append(u.id)
                elif u.op == 'br':
                    tested.append(u)
        decides = False
        for br in tested:
            for tgt in br.x['targets']:
                # a definition of the returned value control-dependent on this branch: a phi operand coming from a block dominated by the
                # branch target, where the phi reaches the return
                for i in fn.real_insts():
                    if i.op == 'phi' and reaches_ret(i.id, set()):
                        for v, pb in i.ops:
                            if fn.bmap[tgt].preds == [br.block.id] and cfg.dominates(tgt, pb) and not cfg.dominates(tgt, i.block.id):
                                decides = True
        # ... and nothing else decides it: between the dequeue call and the definition of the returned index the only conditions are tests of
        # the dequeue result itself and of the index variable ("first ready object only"); a further condition (the outcome of the last sleep,
        # say) lets a consumed wake-up go unreported
        foreign = None
        if decides:
            retphis = set(i.id for i in fn.real_insts() if i.op == 'phi' and reaches_ret(i.id, set()))
            def leaves(ref, seen):
                if not isinstance(ref, str):
                    return set()
                if ref in seen:
                    return set()
                seen.add(ref)
                if ref == c.id or ref in retphis or (ref.startswith('a') and ref[1:].isdigit()):
                    return set()
                j = fn.imap.get(ref)
                if j is None:
                    return {ref}
                if j.op in ('icmp', 'zext', 'sext', 'trunc', 'xor', 'and', 'or', 'select'):
                    out = set()
                    for o in j.ops:
                        out |= leaves(o, seen)
                    return out
                if j.op == 'phi':
                    out = set()
                    for v, pb in j.ops:
                        out |= leaves(v, seen)
                    return out
                return {ref}
            for i in fn.real_insts():
                if i.op != 'phi' or i.id not in retphis:
                    continue
                # the value carried round the loop (the index variable itself: a header phi that takes this phi back) versus a fresh definition
                carried = set(v for v, _ in i.ops if isinstance(v, str) and v in fn.imap and fn.imap[v].op == 'phi'
                              and any(v2 == i.id for v2, _ in fn.imap[v].ops))
                for v, pb in i.ops:
                    if not isinstance(v, str) or v in carried or not carried or not cfg.dominates(c.block.id, pb) or pb == c.block.id:
                        continue
                    # v is a fresh index defined after this dequeue call, in block pb
                    gl = list(_guards(fn, fn.bmap[pb].term))
                    tpb = fn.bmap[pb].term
                    if tpb.op == 'br' and len(tpb.x['targets']) == 2 and isinstance(tpb.ops[0], str) and tpb.ops[0] in fn.imap:
                        # the definition sits on an edge of pb's own conditional branch
                        from ..bounds import _expand
                        _expand(fn, fn.imap[tpb.ops[0]], tpb.x['targets'][0] == i.block.id, gl, 0)
                    for cond, sense in gl:
                        if not cfg.dominates(c.block.id, cond.block.id):
                            continue
                        lv = leaves(cond.id, set())
                        if lv:
                            foreign = (cond, sorted(lv))
        rep.instance(rid, 'dequeue result at %s: tested by %d branch(es), decides the returned index: %s%s' % (c.where(), len(tested), decides, '' if foreign is None else ' (also conditioned on %s)' % ', '.join(fn.name_of(x) for x in foreign[1])))
        rep.oblig(rid, decides and foreign is None)
        if decides and foreign is not None:
            rep.violate(Violation(rid, foreign[0].where(), 'nsync_wait_n records the object whose dequeue says "no longer queued" only if a further condition holds (%s): when it does not, a wake-up that a signaller has already spent on this call (the record was unlinked and posted) is reported as a timeout and nobody else is woken in its place'
                                  % ', '.join(fn.name_of(x) for x in foreign[1]), site='nsync_wait_n/dequeue-result-conditioned'))
        if not decides:
            rep.violate(Violation(rid, c.where(), 'nsync_wait_n %s the result of dequeue: whether this call was woken through the object is decided only there (under the object\'s lock); '
                                  'a wake-up that arrives after the last ready_time poll is consumed (the record is unlinked and posted) but the call reports a timeout' %
                                  ('ignores' if not tested else 'does not derive its returned index from'), site='nsync_wait_n/dequeue-result'))
    return n

def _is_positive_time_predicate(mod, name):
    """does the static function name(seconds, nanoseconds) return non-zero only when the time is later than (0, 0)?  Every path of the function is
    evaluated in closed form (affine engine); a non-zero result needs seconds > 0, or seconds == 0 and nanoseconds > 0, on its path"""
    from ..affine import Evaluator, Aff, Inexact
    f = mod.func(name)
    if f is None or f.decl or not f.internal or [a['ty'] for a in f.args] != ['i64', 'i64']:
        return False
    sec, ns = Aff({'t.sec': 1}), Aff({'t.nsec': 1})
    I64 = (-(1 << 63), (1 << 63) - 1)
    try:
        paths = Evaluator(mod).run(f, [sec, ns], {'t.sec': I64, 't.nsec': (0, 999999999)})
    except (Inexact, AnalysisBroken):
        return False
    if not paths:
        return False
    for p, rv in paths:
        if not (isinstance(rv, Aff) and rv.is_const()):
            return False
        if rv.k == 0:
            continue
        slo, _ = p.interval(sec)
        nlo, _ = p.interval(ns)
        if not (slo > 0 or (slo == 0 and nlo > 0)):
            return False
    return True

def check_waitn_sleep(mod, rep, rid):
    """R3: the sleep of nsync_wait_n happens only while the earliest ready time is in the future, in a loop that re-polls after each wake-up,
    and only on ready times polled after the registrations"""
    fn = waitn_body(mod)
    cfg = cfg_of(fn)
    loops = cfg.loops()
    enq = slot_calls(mod, fn, 'enqueue')
    rdy = slot_calls(mod, fn, 'ready_time')
    if not enq or not rdy:
        raise AnalysisBroken('%s: enqueue/ready_time calls of nsync_wait_n not found' % rid)
    sleeps = [i for i in fn.real_insts() if i.op == 'call' and i.callee in ('nsync_mu_semaphore_p_with_deadline', 'nsync_mu_semaphore_p')]
    if not sleeps:
        raise AnalysisBroken('%s: no sleep found' % rid + '')
    for sl in sleeps:
        g = [n for n in (_norm_cmp(fn, cc, s) for cc, s in _guards(fn, sl)) if n]
        guarded = False
        for p, a, b in g:
            ci = fn.imap.get(a) if isinstance(a, str) else None
            if ci is not None and ci.op == 'call' and ci.callee == 'nsync_time_cmp' and p == 'sgt' and IR.is_int(b) and IR.ival(b) == 0 and list(ci.ops[:2]) == list(sl.ops[1:3]):
                guarded = True
            # ... or a static predicate on the same time that is non-zero only for times after zero (decided by the exact-arithmetic engine)
            if ci is not None and ci.op == 'call' and ci.callee and p == 'ne' and IR.is_int(b) and IR.ival(b) == 0 and list(ci.ops[:2]) == list(sl.ops[1:3]) \
                    and _is_positive_time_predicate(mod, ci.callee):
                guarded = True
        inloop = [h for h, body in loops.items() if sl.block.id in body and any(r.block.id in body for r in rdy if r is not rdy[0] or len(rdy) == 1)]
        ok = guarded and bool(inloop) and sl.callee == 'nsync_mu_semaphore_p_with_deadline'
        # the ready times a sleep relies on are read AFTER the registrations: an object can become ready between the entry scan and its
        # enqueue (which then refuses the record), so a sleep that follows a registration without a fresh poll waits for a post nobody owes
        # (reaching the header of the loop that polls counts: with zero objects the loop body is skipped, but then nothing was registered)
        poll_blocks = set()
        for rc in rdy:
            inl = [h for h, body in loops.items() if rc.block.id in body and sl.block.id not in body]
            poll_blocks.add(min(inl, key=lambda h: len(loops[h])) if inl else rc.block.id)
            poll_blocks.add(rc.block.id)
        unpolled = next((e for e in enq if paths_avoiding(fn, e, lambda i: i is sl, lambda i: i.block.id in poll_blocks) is not None), None)
        if ok and unpolled is not None:
            ok = False
        rep.instance(rid, 'sleep at %s: guarded by min time > 0: %s, re-polling loop: %s, polled after every registration: %s' % (sl.where(), guarded, bool(inloop), unpolled is None)); rep.oblig(rid, ok)
        if guarded and inloop and sl.callee == 'nsync_mu_semaphore_p_with_deadline' and unpolled is not None:
            rep.violate(Violation(rid, sl.where(), 'nsync_wait_n can go from a registration (%s) to the sleep without polling the ready times in between: it sleeps on times read before the objects were registered - an object that became ready meanwhile refused the record, nobody will post the semaphore, and the call blocks although that object is ready' % unpolled.where(),
                                  site='nsync_wait_n/sleep-without-poll'))
            continue
        if not ok:
            rep.violate(Violation(rid, sl.where(), 'nsync_wait_n sleeps %s' % ('although an object may already be ready or the deadline has passed (the earliest ready time is not checked to be in the future)' if not guarded else
                                  'without re-polling the objects after the semaphore returns (it keeps sleeping after one became ready, or takes a stale post for readiness)'), site='nsync_wait_n/sleep-guard'))

def run(ctx, rep):
    mod = ctx.mod('C')
    K = ctx.probe
    fn = waitn_body(mod)
    rep.functions.add(fn.name)
    rep.rule('C11.R1', 'unlock after full registration; lock again iff unlocked')
    rep.rule('C11.R2', 'dequeue loop on every path after a registration attempt; bookkeeping freed iff allocated')
    rep.rule('C11.R3', 'sleep only while the earliest ready time is in the future, re-polling after each wake-up')
    rep.rule('C11.R4', 'cv wakers unlink before waking and wake non-pooled records under the spinlock')
    rep.rule('C11.R5', 'the returned index is derived from the dequeue results')
    check_dequeue_result(mod, rep, 'C11.R5')
    # R6: "on return it is registered on none of the objects".  nsync_wait_n calls dequeue for every registered record and then discards the
    # records; that leaves nothing registered only if each kind's dequeue really settles the record's state under the lock its wakers use
    # (a path that skips the lock can return while a waker still has the record linked, or is about to post it) - the rule of C13.R4.
    from . import C13
    from .. import mumodel as _mm
    _eng, _runs = _mm.analyse(ctx)
    C13.check_dequeuers(ctx, mod, _eng, _runs, rep, rids=('C11.R6', None))
    cfg = cfg_of(fn)
    enq = slot_calls(mod, fn, 'enqueue')
    deq = slot_calls(mod, fn, 'dequeue')
    rdy = slot_calls(mod, fn, 'ready_time')
    if not enq or not deq or not rdy:
        raise AnalysisBroken('C11: enqueue/dequeue/ready_time calls of nsync_wait_n not found')
    # client lock / unlock: indirect calls through the function's own arguments
    argcalls = [i for i in fn.real_insts() if i.op == 'call' and i.callee is None and isinstance(i.x.get('cv'), str) and i.x['cv'].startswith('a')]
    loops = cfg.loops()
    check_waitn_unlock(mod, rep, 'C11.R1')
    # ---- R1b: balance, by interpretation
    files = ('internal/wait.c',)
    eng = WaitNEngine(mod, files, (), (), (), {})
    MUp, WT = Ptr('arg:mu', ()), Ptr('arg:waitable', ())
    all_exits = []
    for mu in (MUp, 0):
        exits = eng.run('nsync_wait_n', [mu, Ptr('client:lock', ()), Ptr('client:unlock', ()), TOP, TOP, TOP, WT], nn={WT} | ({MUp} if mu else set()), label='nsync_wait_n[mu=%s]' % ('mu' if mu else 'NULL'))
        all_exits += list(exits)
        for x in exits:
            ok = not x.ghost.get(('client_unlocked',))
            rep.instance('C11.R1', 'exit with client mutex released: %s' % bool(x.ghost.get(('client_unlocked',)))); rep.oblig('C11.R1', ok)
            if not ok:
                rep.violate(Violation('C11.R1', '%s:%d in nsync_wait_n' % (IR.rel(fn.file), fn.line), 'nsync_wait_n can return with the caller\'s mutex still released', site='nsync_wait_n/return-unlocked'))
    for r in eng.records:
        if r.kind == 'client':
            if r.which == 'lock':
                ok = r.unlocked_before == 1
                msg = 'the client lock function is called although the mutex was not released by this call (with nsync_mu that is a self-deadlock)'
            else:
                ok = r.unlocked_before == 0
                msg = 'the client unlock function is called twice'
            rep.instance('C11.R1', 'client %s at %s (released before: %s)' % (r.which, r.where(), r.unlocked_before)); rep.oblig('C11.R1', ok)
            if not ok:
                rep.violate(Violation('C11.R1', r.where(), msg, site='nsync_wait_n/lock-balance'))
    # ---- R2: dequeue loop on every path from the first registration attempt
    deq_loops = [h for h, body in loops.items() if deq[0].block.id in body]
    if deq_loops:
        hdr = min(deq_loops, key=lambda h: len(loops[h]))
    elif loops_itself(mod, deq[0], 'dequeue'):
        hdr = deq[0].block.id          # the whole dequeue loop lives in a helper: the call to it must lie on every path
    else:
        raise AnalysisBroken('C11.R2: the dequeue call is not in a loop')
    skip = paths_avoiding(fn, enq[0], lambda i: i.op == 'ret', lambda i: i.block.id == hdr)
    rep.instance('C11.R2', 'dequeue loop header %s lies on every path from the registration at %s to the return' % (hdr, enq[0].where())); rep.oblig('C11.R2', skip is None)
    if skip is not None:
        rep.violate(Violation('C11.R2', enq[0].where(), 'nsync_wait_n can return after registering on objects without running the dequeue loop: a record on the dead stack frame stays queued on the object', site='nsync_wait_n/skip-dequeue'))
    # bookkeeping, by interpretation: at every exit each heap block obtained by the call has been freed, and free receives nothing but such a block
    # (never the on-stack array) - however the code remembers which of the two it is using
    okb, whyb, nb = True, None, 0
    for x in all_exits:
        for k in x.ghost:
            if isinstance(k, tuple) and k[0] == 'alloc':
                nb += 1
                if not x.ghost.get(('freed', k[1])):
                    okb, whyb = False, 'nsync_wait_n can return without freeing the array of waiter records it allocated (a leak on every call with many objects)'
    for r in eng.records:
        if r.kind == 'free':
            nb += 1
            pb = r.ptr.base if isinstance(r.ptr, Ptr) else None
            if not (pb and pb.startswith('heap:') and r.ghost.get(('alloc', pb)) and not r.ghost.get(('freed', pb))):
                okb, whyb = False, 'free() at %s can receive %s: not a block this call obtained from malloc and still owns (the on-stack array, or a second free)' % (r.where(), pb or 'an unknown pointer')
    rep.instance('C11.R2', 'heap bookkeeping: %d allocation/free events, freed iff allocated on every path' % nb); rep.oblig('C11.R2', okb)
    if not okb:
        rep.violate(Violation('C11.R2', '%s:%d in nsync_wait_n' % (IR.rel(fn.file), fn.line), whyb, site='nsync_wait_n/bookkeeping'))
    # ---- R3
    check_waitn_sleep(mod, rep, 'C11.R3')
    # ---- R4
    wakeshape.check_wake_loops(mod, rep, 'C11.R4', only_files=('cv.c',))
    before = len(rep.violations)
    sub_rule = rep.rules.get('C04.R5')
    rep.rule('C04.R5', 'deferred wake-ups only for pooled records')
    C13_R3(mod, K, rep)
    r5 = rep.rules.pop('C04.R5')
    rep.rules['C11.R4']['instances'] += r5['instances']; rep.rules['C11.R4']['obligations'] += r5['obligations']; rep.rules['C11.R4']['discharged'] += r5['discharged']
    for v in rep.violations[before:]:
        v.rule = 'C11.R4'
    from .C08 import check_notify_returns_notified
    rep.rule('C11.R7', 'an expired note is marked before its dequeue function decides (notify returns only with the note marked)')
    check_notify_returns_notified(mod, rep, 'C11.R7')
    from . import C12
    rep.rule('C11.R8', 'the timed semaphore wait reports non-zero only for a kernel timeout confirmed by the clock')
    C12.check_timeout_guards(mod, K, rep, 'C11.R8')
    # R9: the cv hooks keep CV_NON_EMPTY in step with the queue - a hook that clears it while another waiter is still queued makes the next
    # signal skip the queue, and that waiter's nsync_wait_n reports a timeout (count) although its object was signalled (rule body of C04.R4)
    from . import C04
    rep.rule('C11.R9', 'the cv enqueue/dequeue hooks of nsync_wait_n keep CV_NON_EMPTY in step with the queue')
    for _r in _eng.records:
        if _r.kind == 'trans' and _r.pairs and 'waitable' in (_r.entry or ''):
            C04.check_non_empty_record(K, _eng, _r, _r.site(_eng.wrappers), rep, 'C11.R9')
    rep.floor('C11.R9', 1)
    rep.floor('C11.R1', 4)
    rep.floor('C11.R2', 2)
    rep.floor('C11.R3', 1)
    rep.assumptions += ['the note/counter registration functions are judged by C08/C10 (re-check under the object mutex, dequeue under the mutex)',
                        'which ready object is reported under races is not decided']
    return rep.finish(
        explanation='Dominance / path rules on the CFG of nsync_wait_n (registration before unlock, dequeue on all paths, guarded sleep in a re-polling loop) plus an interpretation of the function with the client lock functions as tracked events (lock/unlock balance), plus the cv waker rules.',
        trusted_base=['clang 14 IR', 'nsa/symex.py', 'dominators / natural loops'])

"""C17 - the waiter-queue list operations implement a sequence.

Engine E5 (nsa.shape).  A list value is the last element of a circular doubly linked ring (NULL = empty).  For every mutator and every
precondition shape (rings built from named elements and summary segments, so every length is covered) the IR is interpreted on the abstract
heap and the result is compared with the abstract sequence:
   remove(A.e.B, e)        = A.B, e becomes a self-linked singleton
   splice_after(p.P', n.N') = p.n.N'.P'
   make_first(L, e.E')     = e.E' ++ L        (returns L's head, or the last element of e's ring when L is empty; L unchanged for e = NULL)
   make_last(L, E'.e)      = L ++ E'.e        (returns e; L for e = NULL)
and the accessors first/last/next/prev/is_empty are checked against the same sequences.  Post-conditions: the result is a well-formed ring
(prev is the inverse of next), its element sequence is the expected one, no element outside the operands is written.
By induction over operation sequences (each operation maps well-formed disjoint rings to well-formed disjoint rings with the specified
sequences) this is the stated property for all lengths and all operation sequences."""
from .. import ir as IR
from ..shape import Heap, ShapeInterp, expand
from ..report import Violation, AnalysisBroken

def rings_desc(items):
    return '[' + ' '.join(items) + ']'

def check_result(rep, rid, mod, opname, desc, heap, list_head, expected, frame=(), extra=None, singleton=None):
    """list_head: returned list value (last element) or None; expected: list of original item names in order"""
    fn = mod.func(opname)
    where = '%s:%d in %s' % (IR.rel(fn.file), fn.line, fn.name)
    msgs = []
    if isinstance(list_head, tuple) and list_head and list_head[0] == 'error':
        msgs.append(list_head[1])
    elif not expected:
        if list_head is not None:
            msgs.append('result should be the empty list but is %s' % (list_head,))
    else:
        exp = expand(heap, expected)
        if list_head is None:
            msgs.append('result is the empty list, expected %s' % rings_desc(exp))
        else:
            first = heap.nxt.get(list_head)
            if first is None:
                msgs.append('returned head %s is not an element' % (list_head,))
            else:
                seq, ok = heap.ring_from(first)
                if not ok:
                    msgs.append('the result is not a well-formed ring (prev is not the inverse of next) around %s' % rings_desc(seq))
                if seq != exp:
                    msgs.append('element order is %s, expected %s' % (rings_desc(seq), rings_desc(exp)))
                if seq and seq[-1] != list_head:
                    msgs.append('the returned list does not designate the last element')
    if singleton is not None:
        if heap.nxt.get(singleton) != singleton or heap.prv.get(singleton) != singleton:
            msgs.append('the removed element %s is not left as a self-linked singleton (next=%s prev=%s)' % (singleton, heap.nxt.get(singleton), heap.prv.get(singleton)))
    for fr in frame:
        fr_exp = expand(heap, fr)
        seq, ok = heap.ring_from(fr_exp[0])
        if not ok or seq != fr_exp:
            msgs.append('an unrelated list %s was modified (now %s)' % (rings_desc(fr_exp), rings_desc(seq)))
    rep.instance(rid, '%s on %s -> head %s' % (opname, desc, list_head))
    rep.oblig(rid, not msgs)
    for m in msgs[:2]:
        rep.violate(Violation(rid, where, '%s applied to %s: %s' % (opname, desc, m), site='%s/shape' % opname))

class _Tracking(ShapeInterp):
    """records, per list function, whether some interpreted call returned NULL (for the attribute contracts of R6)"""
    def __init__(self, mod):
        ShapeInterp.__init__(self, mod)
        self.null_returns = {}
    def call(self, fname, args, heap):
        out = ShapeInterp.call(self, fname, args, heap)
        for h2, rv in out:
            if rv is None:
                self.null_returns.setdefault(fname, args)
        return out

def check_attribute_contracts(mod, si, rep, rid):
    """R6 - the list functions promise the optimiser no more than their bodies keep.  A declaration attribute (const, pure, returns_nonnull)
    is part of the implementation: callers compiled with optimisation reuse results across mutations, or drop NULL tests, on the strength of it,
    so the traversals no longer yield the abstract sequence although dll.c itself is unchanged.  Compared with the IR of the definitions:
    'readnone' (const) needs a body without loads, 'readonly'/'readnone' a body without stores, 'nonnull' results no NULL-returning path
    (taken from the shape interpretation above, i.e. for the documented preconditions including e = NULL and the empty list)."""
    for f in sorted(mod.defined.values(), key=lambda f: f.name):
        if not (f.file or '').endswith('dll.c'):
            continue
        loads = [i for i in f.real_insts() if i.op == 'load']
        stores = [i for i in f.real_insts() if i.op == 'store']
        calls = [i for i in f.real_insts() if i.op == 'call' and i.callee and not i.callee.startswith('llvm.')]
        problems = []
        if 'readnone' in f.fattrs and (loads or stores or calls):
            problems.append(('declared __attribute__((const)) (no memory access) but its body %s: an optimising caller reuses a result computed before a list mutation'
                             % ('reads list links' if loads else 'writes or calls'), (loads or stores or calls)[0]))
        if 'readonly' in f.fattrs and stores:
            problems.append(('declared __attribute__((pure)) but its body writes list links', stores[0]))
        if 'nonnull' in f.rattrs and f.name in si.null_returns:
            problems.append(('declared returns_nonnull but returns NULL for arguments %s: an optimising caller deletes its emptiness test' % (si.null_returns[f.name],), f.entry.insts[0]))
        rep.instance(rid, '%s: attributes %s %s' % (f.name, list(f.fattrs), list(f.rattrs))); rep.oblig(rid, not problems)
        for msg, at in problems:
            rep.violate(Violation(rid, at.where(), '%s is %s' % (f.name, msg), site='%s/attribute-contract' % f.name))

def run(ctx, rep):
    mod = ctx.mod('C')
    si = _Tracking(mod)
    rep.rule('C17.R1', 'remove: A.e.B -> A.B, e self-linked, for all shapes')
    rep.rule('C17.R2', 'splice_after: p.P , n.N -> p.n.N.P')
    rep.rule('C17.R3', 'make_first: L , e.E -> e.E ++ L')
    rep.rule('C17.R4', 'make_last: L , E.e -> L ++ E.e')
    rep.rule('C17.R5', 'accessors first/last/next/prev/is_empty agree with the sequence')
    FR = ['x', 'Sx']       # an unrelated ring that must stay untouched
    # ---- remove
    for A in ([], ['SA'], ['a1'], ['a1', 'SA']):
        for B in ([], ['l'], ['SB', 'l'], ['b1', 'l']):
            ring = A + ['e'] + B
            h = Heap(); h.add_ring(ring); h.add_ring(FR)
            lst = ring[-1]
            for h2, rv in si.call('nsync_dll_remove_', [lst, 'e'], h):
                check_result(rep, 'C17.R1', mod, 'nsync_dll_remove_', rings_desc(ring) + ' remove e', h2, rv, A + B, frame=[FR], singleton='e')
    # ---- splice_after
    for P in ([], ['SP'], ['p2'], ['p2', 'SP']):
        for N in ([], ['SN'], ['n2'], ['n2', 'SN']):
            h = Heap(); h.add_ring(['p'] + P); h.add_ring(['n'] + N); h.add_ring(FR)
            for h2, rv in si.call('nsync_dll_splice_after_', ['p', 'n'], h):
                exp = ['p', 'n'] + N + P
                # result ring read from p; the "list value" designating it is its last element
                last = expand(h2, exp)[-1]
                check_result(rep, 'C17.R2', mod, 'nsync_dll_splice_after_', '%s , %s' % (rings_desc(['p'] + P), rings_desc(['n'] + N)), h2,
                             last if not (isinstance(rv, tuple) and rv and rv[0] == 'error') else rv, _rot(exp), frame=[FR])
    # ---- make_first / make_last
    Ls = ([], ['l'], ['SL', 'l'], ['l1', 'l'])
    Es = (None, [], ['SE'], ['e2'], ['e2', 'SE'])
    for L in Ls:
        for E in Es:
            for op, rid in (('nsync_dll_make_first_in_list_', 'C17.R3'), ('nsync_dll_make_last_in_list_', 'C17.R4')):
                h = Heap()
                if L: h.add_ring(L)
                h.add_ring(FR)
                lst = L[-1] if L else None
                if E is None:
                    e = None
                    er = []
                elif op.endswith('first_in_list_'):
                    er = ['e'] + E          # e heads its ring
                    h.add_ring(er); e = 'e'
                else:
                    er = E + ['e']          # e is the last element of its ring: ring read from e.next is E.e
                    h.add_ring(er); e = 'e'
                for h2, rv in si.call(op, [lst, e], h):
                    if op.endswith('first_in_list_'):
                        exp = er + L
                    else:
                        exp = L + er
                    desc = '%s , e-ring %s' % (rings_desc(L) if L else 'empty', rings_desc(er) if er else 'NULL')
                    check_result(rep, rid, mod, op, desc, h2, rv, exp, frame=[FR])
                    if not (isinstance(rv, tuple) and rv and rv[0] == 'error') and exp:
                        want_head = expand(h2, exp)[-1]
                        ok = rv == want_head
                        rep.oblig(rid, ok)
                        if not ok:
                            fn = mod.func(op)
                            rep.violate(Violation(rid, '%s:%d in %s' % (IR.rel(fn.file), fn.line, fn.name), '%s on %s returns head %s, expected %s' % (op, desc, rv, want_head), site='%s/head' % op))
    # ---- accessors
    for L in ([], ['l'], ['SL', 'l'], ['f1', 'SL', 'l'], ['f1', 'l']):
        h = Heap()
        if L: h.add_ring(L)
        lst = L[-1] if L else None
        def acc(name, args, want_fn):
            for h2, rv in si.call(name, args, h):
                want = want_fn(h2)
                ok = (rv == want) or (isinstance(rv, tuple) and isinstance(want, tuple) and rv == want)
                rep.instance('C17.R5', '%s(%s) on %s = %s' % (name, args, rings_desc(L), rv))
                rep.oblig('C17.R5', ok)
                if not ok:
                    fn = mod.func(name)
                    rep.violate(Violation('C17.R5', '%s:%d in %s' % (IR.rel(fn.file), fn.line, fn.name), '%s on list %s returns %s, expected %s' % (name, rings_desc(L), rv, want), site='%s/accessor' % name))
        acc('nsync_dll_is_empty_', [lst], lambda h2: ('int', int(not L)))
        acc('nsync_dll_last_', [lst], lambda h2: lst)
        acc('nsync_dll_first_', [lst], lambda h2: expand(h2, L)[0] if L else None)
        if L:
            # next of the last element is NULL; next of the first named element is its successor
            acc('nsync_dll_next_', [lst, lst], lambda h2: None)
            first = L[0]
            if not first.startswith('S'):
                acc('nsync_dll_prev_', [lst, first], lambda h2: None)
                if len(L) > 1:
                    acc('nsync_dll_next_', [lst, first], lambda h2: expand(h2, L)[1])
            if len(L) > 1:
                acc('nsync_dll_prev_', [lst, lst], lambda h2: expand(h2, L)[-2])
    rep.rule('C17.R6', 'declaration attributes of the list functions (const / pure / returns_nonnull) promise no more than the bodies keep')
    check_attribute_contracts(mod, si, rep, 'C17.R6')
    rep.floor('C17.R6', 8)
    rep.floor('C17.R1', 16)
    rep.floor('C17.R2', 16)
    rep.floor('C17.R3', 16)
    rep.floor('C17.R4', 16)
    rep.floor('C17.R5', 12)
    rep.assumptions += ['operands satisfy the documented preconditions (e not already in list; p and n in different rings; list values designate the last element)',
                        'frame rule and induction over operation sequences (meta-argument): operations on disjoint well-formed rings compose']
    if si.abandoned and not rep.violations:
        raise AnalysisBroken('C17: %d path(s) of a list operation were given up (a loop steered by an integer the abstract heap does not determine) and no other path shows a violation: undecided' % si.abandoned)
    return rep.finish(
        explanation='List-segment shape analysis: each mutator/accessor of dll.c is interpreted on abstract heaps whose summary segments stand for every length; results are compared with the sequence algebra.',
        trusted_base=['clang 14 IR + sroa', 'nsa/shape.py', 'frame rule / induction over operation sequences'])

def _rot(seq):
    return seq

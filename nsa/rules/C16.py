"""C16 - the debug-state functions only observe, and stay inside the caller's buffer.

R1 (engine E1): in every debug entry point, with the caller holding nothing / the write lock / a read lock, each transition on the mutex
   or cv word changes nothing but the queue-spinlock bit, is an RMW (or, for the cv word whose writers all hold the cv spinlock,
   a store by the spinlock holder of the word it installed with only the spinlock bit cleared); the typestate at exit equals the
   typestate at entry; no blocking call is made.
R2 (bounds, nsa.bounds): every store through the caller's buffer is within [0, len).
R3 (CFG): every path through a state emitter ends with a terminator: the NUL handed to the character writer (the one function that, when
   a character does not fit, writes the "..." marker), a NUL stored directly at start[pos] under pos < len (it fits, nothing is lost), a
   call of a marker function (writes through the buffer and sets the overflow flag on every path), or the edge on which the overflow flag
   was found already set (only the character writer and marker functions set it).
   A path on which the text filled the buffer and that bypasses the character writer drops the last character without the marker.
   Nothing is emitted after the terminator."""
from .. import util, mumodel, ir as IR
from ..cfg import cfg_of
from ..report import Violation, AnalysisBroken
from . import C01

BLOCKING = ('nsync_mu_semaphore_p', 'nsync_mu_semaphore_p_with_deadline', 'nsync_sem_wait_with_cancel_', 'nsync_mu_lock', 'nsync_mu_rlock',
            'nsync_mu_wait', 'nsync_mu_wait_with_deadline', 'nsync_cv_wait', 'nsync_cv_wait_with_deadline', 'nsync_cv_wait_with_deadline_generic')

def is_debug_entry(label):
    return 'debug' in label

def run(ctx, rep):
    mod = ctx.mod('C')
    K = ctx.probe
    eng, runs = mumodel.analyse(ctx)
    rep.rule('C16.R1', 'debug entry points: every word transition flips only the spinlock bit, no stale plain store, typestate unchanged at exit, no blocking call')
    rep.rule('C16.R2', 'every store through the caller buffer is within [0, n)')
    rep.rule('C16.R3', 'every path through a state emitter ends with the NUL handed to the character writer (truncation marker) or stored at start[pos] where it fits')
    spinbit = {'mu': K['MU_SPINLOCK'], 'cv': K['CV_SPINLOCK']}
    ents = [e for e, _ in runs if is_debug_entry(e['label'])]
    if len(ents) < 6:
        raise AnalysisBroken('C16: only %d debug entry points found' % len(ents))
    for r in eng.records:
        if not is_debug_entry(r.entry or ''):
            continue
        if r.kind == 'trans':
            s = r.site(eng.wrappers)
            rep.instance('C16.R1', '%s %s on %s word, typestate(hold=%s,spin=%s) [%s]' % (s.where(), r.how, r.wc.name, r.hold, r.spin, r.entry))
            msg = None
            if r.pairs is None:
                msg = 'the value stored into the %s word is not derived from the word the thread installed when it took the spinlock (a stale or unrelated value)' % r.wc.name
            elif r.how == 'store' and r.wc.name == 'mu' and not (r.hold == 'W' and r.spin == 1):
                msg = 'plain store to the mutex word by a thread that holds only the spinlock: concurrent lock/unlock/enqueue updates are overwritten'
            elif r.how == 'store' and r.spin != 1:
                msg = 'plain store to the %s word without holding its spinlock' % r.wc.name
            else:
                for (e, n) in r.pairs:
                    if (e ^ n) & ~spinbit[r.wc.name] & 0xFFFFFFFF:
                        msg = 'changes bits other than the spinlock: %s -> %s' % (C01.bits(K, e) if r.wc.name == 'mu' else hex(e), C01.bits(K, n) if r.wc.name == 'mu' else hex(n))
                        break
                    if r.how == 'store' and n & spinbit[r.wc.name]:
                        msg = 'the store that should release the spinlock can leave the spinlock bit set (0x%x -> 0x%x)' % (e, n)
                        break
            rep.oblig('C16.R1', msg is None)
            if msg:
                rep.violate(Violation('C16.R1', s.where(), msg + ' [entry %s]' % r.entry, site='%s/%s-%s' % (s.fn.name, r.wc.name, r.how)))
        elif r.kind == 'call' and r.callee in BLOCKING:
            rep.instance('C16.R1', 'call %s at %s' % (r.callee, r.where()))
            rep.oblig('C16.R1', False)
            rep.violate(Violation('C16.R1', r.where(), 'debug-state function calls the blocking operation %s' % r.callee, site='%s/blocking-call' % r.inst.fn.name))
    for e, exits in runs:
        if not is_debug_entry(e['label']):
            continue
        g0 = e['ghost'].get(mumodel.lk(), None)
        for x in exits:
            bad = [(k, v) for k, v in x.ghost.items() if isinstance(k, tuple) and k[0] == 'lk' and (v[1] != 0 or (k == mumodel.lk() and g0 and v != g0))]
            rep.instance('C16.R1', '%s exit typestate %s' % (e['label'], [(k[1], v) for k, v in x.ghost.items() if isinstance(k, tuple) and k[0] == 'lk']))
            rep.oblig('C16.R1', not bad)
            if bad:
                fn = mod.func(e['fn'])
                rep.violate(Violation('C16.R1', '%s:%d in %s' % (IR.rel(fn.file), fn.line, fn.name),
                                      '%s returns with a changed lock state: %s' % (e['label'], bad), site='%s/exit-typestate' % e['fn']))
    rep.floor('C16.R1', 12)
    # ---- R2 bounds
    from .. import bounds
    bounds.check_emit_bounds(mod, rep, 'C16.R2')
    # ---- R3 final NUL / truncation marker
    check_termination(mod, rep, 'C16.R3')
    # public debug functions return the result of such an emitter on all paths
    rep.floor('C16.R3', 2)
    rep.assumptions += ['the caller passes n = the real size of buf (n >= 0)']
    return rep.finish(
        explanation='R1: typestate interpretation of the six debug entry points under all three caller modes: transitions touch only the spinlock bit and are RMWs (cv: spinlock-holder stores). R2: interval/affine proof that all stores through emit_buf.start are inside [0,len). R3: post-dominance of the terminating NUL.',
        trusted_base=['clang 14 IR', 'nsa/symex.py', 'nsa/bounds.py', 'dominators'])


def check_termination(mod, rep, rid):
    from .. import bounds
    from ..cfg import paths_avoiding
    writers = bounds.buffer_writers(mod)
    # the character writer: stores a value derived from one of its parameters through the buffer (and owns the overflow path)
    charw = set()
    for w in writers:
        fn = mod.func(w)
        for i in fn.real_insts():
            if i.op == 'store' and bounds._start_root(mod, fn, i.ops[1]) is not None:
                v = i.ops[0]
                seen = set()
                while isinstance(v, str) and v in fn.imap and fn.imap[v].op in ('trunc', 'zext', 'sext') and v not in seen:
                    seen.add(v); v = fn.imap[v].ops[0]
                if isinstance(v, str) and v.startswith('a') and v[1:].isdigit():
                    charw.add(w)
    if not charw:
        raise AnalysisBroken('%s: no character writer (a function storing its argument through emit_buf.start) found' % rid)
    inits = set()
    for fn in mod.defined.values():
        for i in fn.real_insts():
            if i.op == 'store' and bounds._field_of(mod, fn, i.ops[1])[0] == bounds.F_POS and IR.is_int(i.ops[0]) and IR.ival(i.ops[0]) == 0:
                inits.add(fn.name)
    BUFT = '%struct.emit_buf*'
    def takes_buf(f):
        return any(a['ty'] == BUFT for a in f.args)
    cg = util.callgraph(mod)
    emit_like = set(charw)
    changed = True
    while changed:
        changed = False
        for f2, cs in cg.items():
            if f2 not in emit_like and cs & emit_like and f2 not in inits:
                emit_like.add(f2); changed = True
    # marker functions: descriptor functions that write through the buffer and set the overflow flag on every path (the "..." writer split off
    # from the character writer); and the "already marked" edge: a branch taken because the overflow flag was found set - the flag is set by
    # nobody but the character writer's overflow path and the marker functions
    F_OVF = bounds.BUF + '.overflow'
    def sets_ovf(f, i):
        return i.op == 'store' and IR.is_int(i.ops[0]) and IR.ival(i.ops[0]) != 0 and bounds._field_of(mod, f, i.ops[1])[0] == F_OVF
    markers = set()
    for w in writers:
        f = mod.func(w)
        if w in charw or not takes_buf(f) or not any(sets_ovf(f, i) for i in f.real_insts()):
            continue
        first = f.entry.insts[0]
        if sets_ovf(f, first) or paths_avoiding(f, first, lambda i: i.op == 'ret', lambda i: sets_ovf(f, i)) is None:
            markers.add(w)
    ovf_setters = set(f.name for f in mod.defined.values() if any(sets_ovf(f, i) for i in f.real_insts()))
    flag_trusted = ovf_setters <= (charw | markers)
    def marked_edge(fn, src, dst):
        """the edge src -> dst is taken because the overflow flag was read as non-zero"""
        if not flag_trusted:
            return False
        t = fn.bmap[src].term
        if t.op != 'br' or len(t.x['targets']) != 2 or t.x['targets'][0] == t.x['targets'][1] or not isinstance(t.ops[0], str):
            return False
        out = []
        bounds._expand(fn, fn.imap[t.ops[0]], t.x['targets'][0] == dst, out, 0)
        for c, sense in out:
            n = bounds._norm_cmp(fn, c, sense)
            if n and n[0] == 'ne' and IR.is_int(n[2]) and IR.ival(n[2]) == 0 and bounds._load_of(mod, fn, n[1], F_OVF) is not None:
                return True
        return False
    def escapes(fn, term):
        """is there a path from the entry of fn to a return that meets no terminator event (instruction or marked edge)?"""
        seen, work = set(), [fn.entry.id]
        while work:
            b = work.pop()
            if b in seen:
                continue
            seen.add(b)
            blk = fn.bmap[b]
            hit = False
            for i in blk.insts:
                if is_event(fn, i, term):
                    hit = True
                    break
                if i.op == 'ret':
                    return True
            if hit:
                continue
            for sx in blk.succ:
                if not marked_edge(fn, b, sx):
                    work.append(sx)
        return False
    def is_event(fn, i, term):
        if i.op == 'call' and i.callee in charw and len(i.ops) >= 2 and IR.is_int(i.ops[1]) and IR.ival(i.ops[1]) == 0:
            return True
        if i.op == 'call' and i.callee in markers:
            return True
        if i.op == 'call' and i.callee in term:
            return True
        if i.op == 'store' and IR.is_int(i.ops[0]) and IR.ival(i.ops[0]) == 0 and bounds._start_root(mod, fn, i.ops[1]) is not None:
            ok, why = bounds._prove_store(mod, fn, i, i.ops[1], None)
            return ok and why.startswith('S1')
        return False
    # helpers that terminate the text on every path (fixpoint)
    term = set()
    changed = True
    while changed:
        changed = False
        for f in mod.defined.values():
            if f.name in term or f.name in charw or not takes_buf(f) or f.name in inits:
                continue
            if not any(is_event(f, i, term) for i in f.real_insts()):
                continue
            if not escapes(f, term):
                term.add(f.name); changed = True
    # ... and the terminator really is a NUL inside the buffer: the character writer called with 0, and every marker function, evaluated path by
    # path from the descriptor invariant (engine E4m), leave a 0 at the entry cursor position or in the last byte on every path that has a
    # buffer to write to and was not entered with the overflow flag already set
    from .. import bufeval
    for w in sorted(charw | markers):
        f = mod.func(w)
        fixed = None
        if w in charw:
            ia = [a['id'] for a in f.args if a['ty'].startswith('i')]
            fixed = {ia[0]: 0} if len(ia) == 1 else None
            if fixed is None:
                continue
        r = bufeval.analyse_writer(mod, f, fixed)
        if not r or r[0] != 'ok':
            rep.instance(rid, '%s: NUL termination not decided by path evaluation (%s)' % (w, r[1] if r else 'not a descriptor function'))
            continue
        bad = sum(1 for t in r[4] if t is False)
        rep.instance(rid, '%s%s: %d path(s) evaluated, NUL inside the buffer on every path that needs one: %s' % (w, ' (c = 0)' if fixed else '', len(r[4]), bad == 0)); rep.oblig(rid, bad == 0)
        if bad:
            rep.violate(Violation(rid, '%s:%d in %s' % (IR.rel(f.file), f.line, w),
                '%s%s can return on %d path(s) without having put a NUL at the cursor position or in the last byte of a non-empty buffer: the result is not NUL-terminated inside buf[0..n-1] (e.g. for a buffer shorter than the "..." marker)' % (w, ' called with the terminator' if fixed else '', bad),
                site='%s/no-nul' % w))
    # roots: the emitters the public functions hand their freshly initialised buffer to (or the public function itself)
    roots = []
    for P in mod.defined.values():
        if P.name in inits or not any(i.op == 'call' and i.callee in inits for i in P.real_insts()):
            continue
        es = sorted(set(i.callee for i in P.real_insts() if i.op == 'call' and i.callee in emit_like and mod.func(i.callee) is not None and takes_buf(mod.func(i.callee))))
        roots.extend(es or [P.name])
    roots = sorted(set(roots))
    if len(roots) < 1:
        raise AnalysisBroken('%s: no state emitter found' % rid)
    for rn in roots:
        f = mod.func(rn)
        ok = rn in term
        why = None
        if not ok:
            # name the helper that lets the path through, if that is where it happens
            leak = next((i.callee for i in f.real_insts() if i.op == 'call' and i.callee not in term and i.callee not in charw and mod.func(i.callee) is not None
                         and not mod.func(i.callee).decl and takes_buf(mod.func(i.callee)) and any(is_event(mod.func(i.callee), j, term) for j in mod.func(i.callee).real_insts())), None)
            why = ('%s can return on a path that neither hands the terminating NUL to the character writer (%s) nor stores it at start[pos] under pos < len%s: when the text has filled the buffer the last character is dropped (or the text left unterminated) without the "..." truncation marker'
                   % (rn, ', '.join(sorted(charw)), (' - the helper %s has such a path' % leak) if leak else ''))
        else:
            # nothing emitted after a terminator
            for i in f.real_insts():
                if is_event(f, i, term):
                    later = paths_avoiding(f, i, lambda j: j.op == 'call' and j.callee in emit_like and not is_event(f, j, term), lambda j: False)
                    if later is not None:
                        ok = False
                        why = '%s: text is emitted after the terminating NUL (%s)' % (rn, later.where())
        rep.instance(rid, '%s: terminated on every path: %s (terminating helpers: %s)' % (rn, ok, sorted(term - {rn}) or '-'))
        rep.oblig(rid, ok)
        if not ok:
            rep.violate(Violation(rid, '%s:%d in %s' % (IR.rel(f.file), f.line, rn), why, site='%s/final-nul' % rn))

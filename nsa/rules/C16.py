"""C16 - the debug-state functions only observe, and stay inside the caller's buffer.

R1 (engine E1): in every debug entry point, with the caller holding nothing / the write lock / a read lock, each transition on the mutex
   or cv word changes nothing but the queue-spinlock bit, is an RMW (or, for the cv word whose writers all hold the cv spinlock,
   a store by the spinlock holder of the word it installed with only the spinlock bit cleared); the typestate at exit equals the
   typestate at entry; no blocking call is made.
R2 (bounds, nsa.bounds): every store through the caller's buffer is within [0, len).
R3 (CFG): every path through the state emitters ends with the emission of a NUL through the bounded writer."""
from .. import util, mumodel, ir as IR
from ..cfg import cfg_of
from ..report import Violation, AnalysisBroken
from . import C01

BLOCKING = ('nsync_mu_semaphore_p', 'nsync_mu_semaphore_p_with_deadline', 'nsync_sem_wait_with_cancel_', 'nsync_mu_lock', 'nsync_mu_rlock',
            'nsync_mu_wait', 'nsync_mu_wait_with_deadline', 'nsync_cv_wait', 'nsync_cv_wait_with_deadline', 'nsync_cv_wait_with_deadline_generic')

def is_debug_entry(label):
    return 'debug' in label

def run(ctx, rep):
    mod = ctx.mod('C')
    K = ctx.probe
    eng, runs = mumodel.analyse(ctx)
    rep.rule('C16.R1', 'debug entry points: every word transition flips only the spinlock bit, no stale plain store, typestate unchanged at exit, no blocking call')
    rep.rule('C16.R2', 'every store through the caller buffer is within [0, n)')
    rep.rule('C16.R3', 'every path through the emitters ends with a NUL written by the bounded writer')
    spinbit = {'mu': K['MU_SPINLOCK'], 'cv': K['CV_SPINLOCK']}
    ents = [e for e, _ in runs if is_debug_entry(e['label'])]
    if len(ents) < 6:
        raise AnalysisBroken('C16: only %d debug entry points found' % len(ents))
    for r in eng.records:
        if not is_debug_entry(r.entry or ''):
            continue
        if r.kind == 'trans':
            s = r.site(eng.wrappers)
            rep.instance('C16.R1', '%s %s on %s word, typestate(hold=%s,spin=%s) [%s]' % (s.where(), r.how, r.wc.name, r.hold, r.spin, r.entry))
            msg = None
            if r.pairs is None:
                msg = 'the value stored into the %s word is not derived from the word the thread installed when it took the spinlock (a stale or unrelated value)' % r.wc.name
            elif r.how == 'store' and r.wc.name == 'mu' and not (r.hold == 'W' and r.spin == 1):
                msg = 'plain store to the mutex word by a thread that holds only the spinlock: concurrent lock/unlock/enqueue updates are overwritten'
            elif r.how == 'store' and r.spin != 1:
                msg = 'plain store to the %s word without holding its spinlock' % r.wc.name
            else:
                for (e, n) in r.pairs:
                    if (e ^ n) & ~spinbit[r.wc.name] & 0xFFFFFFFF:
                        msg = 'changes bits other than the spinlock: %s -> %s' % (C01.bits(K, e) if r.wc.name == 'mu' else hex(e), C01.bits(K, n) if r.wc.name == 'mu' else hex(n))
                        break
                    if r.how == 'store' and n & spinbit[r.wc.name]:
                        msg = 'the store that should release the spinlock can leave the spinlock bit set (0x%x -> 0x%x)' % (e, n)
                        break
            rep.oblig('C16.R1', msg is None)
            if msg:
                rep.violate(Violation('C16.R1', s.where(), msg + ' [entry %s]' % r.entry, site='%s/%s-%s' % (s.fn.name, r.wc.name, r.how)))
        elif r.kind == 'call' and r.callee in BLOCKING:
            rep.instance('C16.R1', 'call %s at %s' % (r.callee, r.where()))
            rep.oblig('C16.R1', False)
            rep.violate(Violation('C16.R1', r.where(), 'debug-state function calls the blocking operation %s' % r.callee, site='%s/blocking-call' % r.inst.fn.name))
    for e, exits in runs:
        if not is_debug_entry(e['label']):
            continue
        g0 = e['ghost'].get(mumodel.lk(), None)
        for x in exits:
            bad = [(k, v) for k, v in x.ghost.items() if isinstance(k, tuple) and k[0] == 'lk' and (v[1] != 0 or (k == mumodel.lk() and g0 and v != g0))]
            rep.instance('C16.R1', '%s exit typestate %s' % (e['label'], [(k[1], v) for k, v in x.ghost.items() if isinstance(k, tuple) and k[0] == 'lk']))
            rep.oblig('C16.R1', not bad)
            if bad:
                fn = mod.func(e['fn'])
                rep.violate(Violation('C16.R1', '%s:%d in %s' % (IR.rel(fn.file), fn.line, fn.name),
                                      '%s returns with a changed lock state: %s' % (e['label'], bad), site='%s/exit-typestate' % e['fn']))
    rep.floor('C16.R1', 12)
    # ---- R2 bounds
    from .. import bounds
    bounds.check_emit_bounds(mod, rep, 'C16.R2')
    # ---- R3 final NUL
    writers = bounds.buffer_writers(mod)
    for fn in mod.defined.values():
        nul_calls = [i for i in fn.real_insts() if i.op == 'call' and i.callee in writers and len(i.ops) >= 2 and IR.is_int(i.ops[1]) and IR.ival(i.ops[1]) == 0]
        if not nul_calls:
            continue
        cfg = cfg_of(fn)
        emit_like = set(writers)
        cg = util.callgraph(mod)
        for f2, cs in cg.items():
            if cs & emit_like:
                emit_like.add(f2)
        ok = False
        why = 'the NUL emission does not lie on every path to the return'
        for c in nul_calls:
            if not cfg.postdominates(c.block.id, fn.entry.id):
                continue
            # nothing is emitted after it
            from ..cfg import paths_avoiding
            later = paths_avoiding(fn, c, lambda i: i.op == 'call' and i.callee in emit_like, lambda i: False)
            if later is None:
                ok = True
            else:
                why = 'text is emitted after the terminating NUL (%s)' % later.where()
        rep.instance('C16.R3', '%s: terminating NUL at %s' % (fn.name, nul_calls[0].where()))
        rep.oblig('C16.R3', ok)
        if not ok:
            rep.violate(Violation('C16.R3', nul_calls[0].where(), '%s: %s' % (fn.name, why), site='%s/final-nul' % fn.name))
    # public debug functions return the result of such an emitter on all paths
    rep.floor('C16.R3', 2)
    rep.assumptions += ['the caller passes n = the real size of buf (n >= 0)']
    return rep.finish(
        explanation='R1: typestate interpretation of the six debug entry points under all three caller modes: transitions touch only the spinlock bit and are RMWs (cv: spinlock-holder stores). R2: interval/affine proof that all stores through emit_buf.start are inside [0,len). R3: post-dominance of the terminating NUL.',
        trusted_base=['clang 14 IR', 'nsa/symex.py', 'nsa/bounds.py', 'dominators'])

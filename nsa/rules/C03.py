"""C03 - every hand-off is a happens-before edge under the declared memory orders.

Decides, for every atomic access that is individually necessary for one of the listed hand-offs, that the declared order is at least what
the hand-off needs, in all three atomic.h flavours the repository ships for this platform (gcc_new as built by gcc, c++11, c11).
It does not compute happens-before over executions.

R1/R2 lock words (derived, no table): from the effect signatures computed by the abstract interpreter (C01): an RMW/store that acquires the
      write lock, a reader share or a spinlock bit must succeed with >= acquire; one that releases any of them must be >= release; both -> acq_rel.
      The same for the free-list spinlock word.
R3    publication flags (table with reasons): waiting (waker stores outside an object mutex: release; sleeper-loop polls and lock-free ready_time
      polls: acquire), once words (store 2: release; loads compared with 2: acquire), notified (store: release; unlocked load: acquire),
      counter value (RMW in add: release; lock-free ready_time poll: acquire).
R4    completeness: every atomic site of the library is classified (constrained, or unconstrained with a reason); a new unclassified site is exit 2.
Sites are identified by their source position (macro expansion site), which is what joins the three configurations."""
from .. import util, mumodel, ir as IR
from ..cfg import cfg_of
from ..report import Violation, AnalysisBroken

RANK = {'relaxed': 0, 'na': -1, 'unordered': 0, 'acquire': 1, 'release': 1, 'acq_rel': 2, 'seq_cst': 3}

def satisfies(actual, need):
    if need == 'relaxed':
        return True
    if actual in ('acq_rel', 'seq_cst'):
        return True
    return actual == need

def site_key_c(s):
    """(file, line, kind) of a source-level atomic site in the -O0 C configuration"""
    pos = s.inst.srcpos()
    return (pos[0], pos[1], s.kind) if pos else None

def repo_pos(inst):
    """innermost location of inst (walking the inlined-at chain outwards) that lies in the library sources proper, not in an atomic.h / system header"""
    loc = inst.loc
    while loc:
        f = IR.rel(loc[0])
        if (f.startswith('internal/') or '/src/' in f) and not f.endswith('atomic.h'):
            return (f, loc[1])
        loc = loc[4] if len(loc) > 4 else None
    return None

def in_critical_section(mod, fn, inst, mutex_fields):
    """inst is dominated by a call nsync_mu_lock/rlock(&X->field) with no unlock of the same field on any path in between"""
    cfg = cfg_of(fn)
    locks, unlocks = [], []
    for i in fn.real_insts():
        if i.op == 'call' and i.callee in ('nsync_mu_lock', 'nsync_mu_rlock', 'nsync_mu_unlock', 'nsync_mu_runlock') and i.ops:
            f = util.last_field(util.addr_class(mod, fn, i.ops[0]))
            if f in mutex_fields:
                (locks if 'unlock' not in i.callee else unlocks).append(i)
    from ..cfg import paths_avoiding
    for l in locks:
        if cfg.inst_dominates(l, inst):
            u = set(id(x) for x in unlocks)
            # is inst reachable from l without passing an unlock?  and no path from an unlock to inst avoiding a lock
            if paths_avoiding(fn, l, lambda i: i is inst, lambda i: id(i) in u) is not None:
                bad = False
                for un in unlocks:
                    lk = set(id(x) for x in locks)
                    if cfg.inst_dominates(l, un) and paths_avoiding(fn, un, lambda i: i is inst, lambda i: id(i) in lk) is not None:
                        bad = True
                if not bad:
                    return True
    return False

def ready_time_functions(mod):
    out = set()
    for n, g in mod.globals.items():
        if 'nsync_waitable_funcs_s' in g.get('ty', '') and g.get('init', {}).get('k') == 'agg':
            e = g['init']['elts']
            if e and e[0].get('k') == 'func':
                out.add(e[0]['n'])
    return out

CARRIERS = ('nsync_mu_s_.word', 'nsync_cv_s_.word', 'nsync_waiter_s.waiting', 'waiter.remove_count', 'nsync_note_s_.notified', 'nsync_counter_s_.value', 'futex.i')

_ALLOC = {}
def _allocators(mod):
    """malloc & co. and the library's allocating wrappers (shared with C19)"""
    if id(mod) not in _ALLOC:
        from .C19 import allocator_functions
        _ALLOC[id(mod)] = allocator_functions(mod)
    return _ALLOC[id(mod)]

def _only_fresh_blocks(mod, fn, ac):
    """the address is a parameter of a static initialiser all of whose callers hand it a block they have just obtained from an allocator"""
    if ac['kind'] != 'arg' or not fn.internal:
        return False
    k = int(ac['arg'][1:])
    sites = [(g, i) for g in mod.defined.values() for i in g.real_insts() if i.op == 'call' and i.callee == fn.name and k < len(i.ops)]
    if not sites:
        return False
    for g, i in sites:
        a2 = util.addr_class(mod, g, i.ops[k])
        if not (a2['kind'] == 'call' and a2['inst'].callee in _allocators(mod) and not a2['path']):
            return False
    return True

def _helper_actuals(mod, eng, name, seen=None):
    """address classes of the actual arguments bound to the atomic-address parameters of generic helper `name`, following helpers that
    forward their own parameter"""
    seen = seen if seen is not None else set()
    if name in seen:
        return []
    seen.add(name)
    out = []
    params = eng.generic_atomic.get(name, ())
    for f in mod.defined.values():
        for i in f.real_insts():
            if i.op == 'call' and i.callee == name:
                for a in params:
                    k = int(a[1:])
                    if k < len(i.ops):
                        ac = util.addr_class(mod, f, i.ops[k])
                        if ac['kind'] == 'arg' and not ac['path'] and ac['arg'] in eng.generic_atomic.get(f.name, ()):
                            out += _helper_actuals(mod, eng, f.name, seen)
                        else:
                            out.append(ac)
    return out

def helper_reaches_lock_word(mod, eng, name):
    for ac in _helper_actuals(mod, eng, name):
        lf = util.last_field(ac)
        if lf in CARRIERS:
            return True
        if lf is None and ac['kind'] not in ('global', 'alloca'):
            return True          # a pointer of unknown origin: cannot exclude a carrier
        if ac['kind'] == 'global' and 'free_waiters_mu' in ac.get('name', ''):
            return True
    return False

def helper_targets(mod, eng, name):
    t = sorted(set((util.last_field(ac) or ac.get('name') or ac['kind']) for ac in _helper_actuals(mod, eng, name)))
    return ', '.join(t[:4]) or 'nothing'

def classify(ctx, rep):
    """returns (requirements: key -> (need, reason, where), unconstrained: key -> reason)"""
    mod = ctx.mod('C')
    K = ctx.probe
    eng, runs = mumodel.analyse(ctx)
    req, free = {}, {}
    def need(key, order, reason, where):
        old = req.get(key)
        if old:
            a, b = old[0], order
            order = a if a == b else ('acq_rel' if {a, b} == {'acquire', 'release'} or 'acq_rel' in (a, b) else b)
            reason = old[1] if old[1] == reason else old[1] + '; ' + reason
        req[key] = (order, reason, where)
    sites = util.atomic_sites(mod)
    by_inst = {(s.fn.name, s.inst.id): s for s in sites}
    # ---- lock words: derived from effects
    eff = {}
    for r in eng.records:
        if r.kind == 'trans' and r.effect is not None:
            s = r.site(eng.wrappers)
            eff.setdefault((s.fn.name, s.id), set()).add(r.effect + (r.hold,))
        elif r.kind == 'trans' and r.how == 'store':
            # a store whose value the interpreter cannot relate to the word (C01.R3 / C16.R1 judge that); for the order it is a
            # release of whatever the thread owns there: the spinlock and/or the lock
            s = r.site(eng.wrappers)
            owns = r.spin == 1 or r.hold in ('W', 'R')
            eff.setdefault((s.fn.name, s.id), set()).add((0, 0, -1 if owns else 0, r.hold))
    for (fname, iid), effs in eff.items():
        s = by_inst.get((fname, iid))
        if s is None:
            continue
        # a writer that downgrades to a reader share gains nothing it did not already own
        acq = any(dW > 0 or ds > 0 or (dc > 0 and hold != 'W') for dW, dc, ds, hold in effs)
        rel = any(dW < 0 or dc < 0 or ds < 0 for dW, dc, ds, hold in effs)
        key = site_key_c(s)
        if acq and rel:
            need(key, 'acq_rel', 'transition both releases and acquires lock/spinlock ownership', s.where())
        elif acq:
            need(key, 'acquire', 'transition acquires lock/spinlock ownership', s.where())
        elif rel:
            need(key, 'release', 'transition releases lock/spinlock ownership', s.where())
        else:
            free[key] = 'RMW on a lock word that transfers no ownership (hint bits only)'
    rt_fns = ready_time_functions(mod)
    once_fns = set(n for n in mod.defined if n.startswith('nsync_run_once')) | {'do_once'}
    from ..wakeshape import WAITING
    for s in sites:
        key = site_key_c(s)
        if key in req or key in free:
            continue
        fn = s.fn
        ac = util.addr_class(mod, fn, s.addr)
        lf = util.last_field(ac)
        w = s.where()
        if lf in ('nsync_mu_s_.word', 'nsync_cv_s_.word'):
            if s.kind == 'load':
                free[key] = 'load of a lock word: a pre-check; an acquiring RMW follows before anything protected is read'
            else:
                raise AnalysisBroken('C03.R4: write to a lock word at %s was not interpreted by the engine' % w)
        elif ac['kind'] == 'arg' and not ac['path'] and fn.name in eng.generic_atomic and fn.name not in once_fns:
            if s.kind == 'load':
                free[key] = 'pre-check load inside a generic helper; its RMW follows'
            elif not helper_reaches_lock_word(mod, eng, fn.name):
                free[key] = 'helper %s is never applied to a lock word or publication flag (its callers pass %s): no listed hand-off passes through it' % (fn.name, helper_targets(mod, eng, fn.name))
            else:
                raise AnalysisBroken('C03.R4: RMW in generic helper %s at %s was not interpreted by the engine' % (fn.name, w))
        elif ac['kind'] == 'global' and not ac['path'] and s.kind == 'store' and 'free_waiters_mu' in ac['name']:
            need(key, 'release', 'releases the free-list spinlock', w)
        elif ac['kind'] == 'global' and not ac['path'] and 'free_waiters_mu' in ac['name']:
            free[key] = 'free-list spinlock access other than its release store'
        elif lf == WAITING:
            if s.kind == 'store':
                v = s.ops[0]
                if IR.is_int(v) and IR.ival(v) == 0 and ac['kind'] == 'load':
                    qf = set(util.last_field(util.addr_class(mod, fn, i.ops[0])) for i in fn.real_insts() if i.op == 'load')
                    if qf & {'nsync_note_s_.waiters', 'nsync_counter_s_.waiters'}:
                        free[key] = "waker store made under the object's mutex, which the dequeuer also takes (lockset rule C08.R5 / C10.R2)"
                    else:
                        need(key, 'release', 'waker publishes its writes (queue unlink, cv_mu) to the sleeper through the waiting flag', w)
                else:
                    free[key] = "a thread's store to its own (not yet / no longer shared) waiter record"
            elif s.kind == 'load':
                if fn.name in rt_fns:
                    need(key, 'acquire', 'lock-free ready_time poll: its result alone lets nsync_wait_n return', w)
                else:
                    loops = cfg_of(fn).loops()
                    own = ac['kind'] != 'load'
                    isloop = any(s.inst.block.id == h and any(j.op == 'call' and j.callee in ('nsync_mu_semaphore_p', 'nsync_mu_semaphore_p_with_deadline', 'nsync_sem_wait_with_cancel_')
                                                              for b in body for j in fn.bmap[b].insts) for h, body in loops.items())
                    # a poll elsewhere in the sleeper loop whose outcome lets the thread LEAVE the loop without going back through the
                    # acquiring poll at the loop header is in the same position as that poll
                    leaves = False
                    if own and not isloop:
                        from ..cfg import paths_avoiding as _pa
                        SLEEPS = ('nsync_mu_semaphore_p', 'nsync_mu_semaphore_p_with_deadline', 'nsync_sem_wait_with_cancel_')
                        for h, body in loops.items():
                            if s.inst.block.id in body and any(j.op == 'call' and j.callee in SLEEPS for b in body for j in fn.bmap[b].insts):
                                # (another observation of the flag on the way out takes over the role; so does the thread's own store to
                                # the flag - after removing itself from the queue on a timeout no waker is involved)
                                others = set(id(j) for j in fn.real_insts() if j is not s.inst and j.op in ('load', 'store') and j.ord != 'na'
                                             and util.last_field(util.addr_class(mod, fn, j.ops[0 if j.op == 'load' else 1])) == WAITING)
                                if _pa(fn, s.inst, lambda j: j.block.id not in body, lambda j: id(j) in others) is not None:
                                    leaves = True
                    if own and isloop:
                        need(key, 'acquire', 'sleeper-loop poll: the loop may be left without a semaphore P, so this load is the only edge from the waker', w)
                    elif leaves:
                        need(key, 'acquire', 'a poll of the waiting flag from which the sleeper loop can be left without passing the acquiring poll at the loop header: this load is then the only edge from the waker', w)
                    else:
                        free[key] = 'waiting flag read under the queue spinlock / object mutex, or a re-check that is followed by the sleeper-loop acquire load'
            else:
                free[key] = 'RMW on waiting flag (none today)'
        elif lf == 'waiter.remove_count':
            free[key] = 'remove_count is written under a queue spinlock and read by the owner under the same spinlock'
        elif fn.name in once_fns and ac['kind'] in ('arg', 'global') and not ac['path']:
            if s.kind == 'store':
                need(key, 'release', 'publishes the completed run of the once-function', w)
            elif s.kind == 'load':
                um = util.users_map(fn)
                # the loaded value may reach the `== 2` / `!= 2` test through the loop's phi (a local re-assigned in the wait loop)
                reach, work = {s.inst.id}, [s.inst.id]
                while work:
                    r0 = work.pop()
                    for u in um.get(r0, []):
                        if u.op in ('phi', 'zext', 'trunc', 'select') and u.id not in reach:
                            reach.add(u.id); work.append(u.id)
                cmp2 = any(u.op == 'icmp' and any(IR.is_int(o) and IR.ival(o) == 2 for o in u.ops) for r0 in reach for u in um.get(r0, []))
                if cmp2:
                    need(key, 'acquire', 'a caller returns on seeing 2; the load must acquire the once-function run', w)
                else:
                    free[key] = 'reload that only feeds the claim CAS loop (compared with 0)'
            else:
                free[key] = "winner's 0->1 claim: nothing is published through it"
        elif lf == 'nsync_note_s_.notified':
            if s.kind == 'store':
                need(key, 'release', 'notification happens-before any observation of it', w)
            elif s.kind == 'load':
                if in_critical_section(mod, fn, s.inst, ('nsync_note_s_.note_mu',)):
                    free[key] = 'read under note_mu, which the notifier holds while storing'
                else:
                    need(key, 'acquire', 'unlocked observation of the notified flag', w)
            else:
                free[key] = 'RMW on notified (none today)'
        elif lf == 'nsync_counter_s_.value':
            if s.kind in ('cas', 'rmw'):
                need(key, 'release', 'the decrement that zeroes the counter happens-before the lock-free poll that sees zero', w)
            elif s.kind == 'load':
                if fn.name in rt_fns:
                    need(key, 'acquire', 'lock-free ready_time poll lets nsync_wait_n / nsync_counter_wait return', w)
                elif in_critical_section(mod, fn, s.inst, ('nsync_counter_s_.counter_mu',)):
                    free[key] = 'read under counter_mu'
                else:
                    free[key] = 'report-only read of the counter value'
            elif (ac['kind'] == 'call' and ac['inst'].callee in _allocators(mod)) or _only_fresh_blocks(mod, fn, ac):
                free[key] = 'initialising store to a counter not yet published'
            else:
                # a store to the value of a published counter (an update written as load + store under counter_mu, say): the lock-free poll
                # that sees the new value does not take the mutex, so the store itself must publish
                need(key, 'release', 'a store that changes the value of a published counter happens-before the lock-free poll that sees it', w)
        elif lf == 'nsync_counter_s_.waited':
            free[key] = 'debug flag used only by an assertion'
        elif lf == 'futex.i':
            free[key] = 'semaphore count: every sleeper re-reads its wake flag with acquire after P (C12 decides the protocol)'
        elif (lf is not None and lf not in CARRIERS) or (lf is None and ac['kind'] in ('global', 'alloca')):
            free[key] = 'location %s is not one through which any of the listed hand-offs passes (lock words, waiting flag, once word, notified flag, counter value)' % (lf or ac.get('name') or ac['kind'])
        else:
            raise AnalysisBroken('C03.R4: atomic %s at %s on %s is not classified (new atomic site: extend the table in nsa/rules/C03.py with its role)'
                                 % (s.kind, w, lf or ac['kind']))
    return sites, req, free

def run(ctx, rep):
    rep.rule('C03.R1', 'lock-word and publication-flag sites carry at least the required order - gcc_new flavour (cfg C)')
    rep.rule('C03.R2', 'same sites - c++11 flavour (cfg CXX)')
    rep.rule('C03.R3', 'same sites - c11 flavour (cfg C11)')
    rep.rule('C03.R4', 'every atomic site of the library is classified (constrained or unconstrained with a reason)')
    sites, req, free = classify(ctx, rep)
    modC = ctx.mod('C')
    for s in sites:
        key = site_key_c(s)
        rep.instance('C03.R4', '%s %s %s: %s' % (s.kind, s.ord, s.where(), ('needs ' + req[key][0]) if key in req else 'unconstrained: ' + free.get(key, '?')))
        rep.oblig('C03.R4', key in req or key in free)
    # cfg C
    seenC = set()
    for s in sites:
        key = site_key_c(s)
        if key in req:
            seenC.add(key)
            needo, why, where = req[key]
            ok = satisfies(s.ord, needo)
            rep.instance('C03.R1', '%s %s at %s needs %s: %s' % (s.kind, s.ord, s.where(), needo, why))
            rep.oblig('C03.R1', ok)
            if not ok:
                rep.violate(Violation('C03.R1', s.where(), '%s declared %s but the hand-off needs %s: %s' % (s.kind, s.ord, needo, why),
                                      site='%s/%s-%s-order' % (s.fn.name, s.kind, key[1] and 'site'), witness={'config': 'C (gcc_new)'}))
    # other flavours, joined by source position
    for cfgname, rid in (('CXX', 'C03.R2'), ('C11', 'C03.R3')):
        mod = ctx.mod(cfgname)
        found = set()
        for st in util.atomic_sites(mod):
            fn = st.fn
            if fn.srcname.startswith(('atomic_', '__atomic', 'load', 'store', 'compare_exchange', 'operator')) and 'include/c++' in (fn.file or ''):
                continue        # inside the C++ standard library
            pos = st.inst.srcpos()
            if pos is None:
                continue
            key = (pos[0], pos[1], st.kind)
            if key in req:
                found.add(key)
                needo, why, where = req[key]
                ok = satisfies(st.ord, needo)
                rep.instance(rid, '%s %s at %s:%d needs %s' % (st.kind, st.ord, pos[0], pos[1], needo))
                rep.oblig(rid, ok)
                if not ok:
                    rep.violate(Violation(rid, '%s:%d in %s' % (pos[0], pos[1], fn.srcname), 'in the %s configuration this %s is %s but the hand-off needs %s: %s'
                                          % (cfgname, st.kind, st.ord, needo, why), site='%s/%s-order-%s' % (fn.srcname, st.kind, cfgname)))
        missing = [k for k in req if k not in found]
        if missing:
            raise AnalysisBroken('C03: %d constrained site(s) could not be located in configuration %s (e.g. %s:%d %s)' % (len(missing), cfgname, missing[0][0], missing[0][1], missing[0][2]))
    rep.floor('C03.R1', 40)
    rep.floor('C03.R4', 90)
    rep.extra['constrained_sites'] = len(req)
    rep.extra['unconstrained_sites'] = len(free)
    rep.extra['configurations'] = ['C (platform/gcc_new/atomic.h)', 'CXX (platform/c++11/atomic.h)', 'C11 (platform/c11/atomic.h)']
    rep.assumptions += ['C++20 release-sequence rules: relaxed RMWs that transfer no ownership do not break a release/acquire chain through the same word',
                        'happens-before over whole executions is not computed; each constrained site is individually necessary for one of the listed hand-offs']
    # ---- R5: the once hand-off needs more than the right orders on its sites: the acquire load has to be the caller's *last* observation
    # before it returns and has to have seen the done value (a waiter that leaves its wait loop on a cv wake-up - the cv is shared by every
    # once word that hashes to the same slot - returns with orders intact but without the edge).  Decided by C07.R3's interpretation.
    from . import C07
    from ..report import Report
    class _Sub(Report):
        def finish(self, *a, **k):
            return 0
    sub = _Sub('C07', rep.tier, rep.level)
    C07.run(ctx, sub)
    rep.rule('C03.R5', 'once: every return is preceded by an acquire load of the once word that saw the done value (or the own release store)')
    r3 = sub.rules.get('C07.R3', {'instances': 0, 'obligations': 0, 'discharged': 0, 'samples': []})
    for smp in r3['samples']:
        rep.instance('C03.R5', smp)
    rep.rules['C03.R5']['instances'] = max(rep.rules['C03.R5']['instances'], r3['instances'])
    rep.rules['C03.R5']['obligations'] += r3['obligations']; rep.rules['C03.R5']['discharged'] += r3['discharged']
    rep.functions.update(sub.functions)
    for v in sub.violations:
        if v.rule == 'C07.R3':
            v.rule = 'C03.R5'
            v.msg = 'no happens-before edge from the once-function to this return: ' + v.msg
            rep.violate(v)
    rep.floor('C03.R5', 8)
    return rep.finish(
        explanation='Declared memory order of every atomic site (from the IR instruction) compared with the order its role requires; roles of lock-word sites are derived from the interpreted transitions, roles of publication flags from a table keyed by field and use; the three atomic.h flavours are joined by source position.',
        trusted_base=['clang 14 IR of the three configurations', 'nsa/symex.py effect signatures', 'the role table in nsa/rules/C03.py'])

"""C05 - timed and cancellable waits return for the stated reason, holding the lock.

R1  mode preservation: every exit of nsync_cv_wait_with_deadline(_generic), nsync_cv_wait, nsync_mu_wait_with_deadline and nsync_mu_wait holds the mutex
    in the mode it was held on entry, spinlock free (typestate interpretation, all contexts; = C01.R5 restricted to the wait families).
R2  provenance of the result codes in the cancellable semaphore wait: ECANCELED is produced only where the note was found notified (time <= 0) or where
    the sleep timed out at the note's own expiry (outcome == ETIMEDOUT and the deadline was not the nearer one) and the note is then notified;
    the deadline/flag pair is selected by one predicate (the flag is set exactly where the caller's deadline is used).
R3  condition trumps: nsync_mu_wait_with_deadline returns 0 exactly when the last evaluation of the condition (made while holding the mutex, with no
    release of the mutex afterwards) was true, and a non-zero result only when it was false.
R4  no unbounded re-sleep: inside one wait the cancellable sleep is entered only while the outcome is still 0, and it is always the deadline-carrying
    primitive that receives the caller's abs_deadline and cancel_note.
R5  once the note is notified no further wake-up is needed: the waiter registers on the cancel note only after re-reading the note's state under note_mu.
R6  ... and it always registers: every path to a sleep of the cancellable wait (note non-NULL, found un-notified) has put the record on the note's list.
R8  the first iteration of each wait loop reaches the sleep on every path that stays in the loop (header phis evaluated at their entry values).
R7  ETIMEDOUT originates only in the timed semaphore wait, under wait result == -1, errno == ETIMEDOUT and deadline <= now (= C12.R3).
Wall-clock promptness is not decided."""
from .. import util, mumodel, ir as IR
from ..bounds import _guards, _norm_cmp
from ..symex import is_expr, eval_tree
from ..report import Violation, AnalysisBroken
from ..cfg import cfg_of

WAITS = ('nsync_cv_wait', 'nsync_mu_wait')

def run(ctx, rep):
    mod = ctx.mod('C')
    K = ctx.probe
    eng, runs = mumodel.analyse(ctx)
    rep.functions.update(f for r in eng.records for f in r.stack)
    rep.rule('C05.R1', 'the mutex is held in the entry mode at every exit of the wait families')
    rep.rule('C05.R2', 'ECANCELED only if the note is notified; deadline/flag selected by one predicate')
    rep.rule('C05.R3', 'mu_wait result 0 iff the last condition evaluation under the lock was true')
    rep.rule('C05.R4', 'the sleep is the deadline-carrying primitive and is not re-entered after an outcome')
    rep.rule('C05.R5', 'registration on the cancel note re-reads its state inside the critical section')
    lk = mumodel.lk()
    for e, exits in runs:
        if not e['label'].startswith(WAITS):
            continue
        want = e['expect'].get('hold')
        for x in exits:
            g = x.ghost.get(lk, ('?', 0))
            ok = want is None or g == (want, 0)
            rep.instance('C05.R1', '%s exit holds %s' % (e['label'], g)); rep.oblig('C05.R1', ok)
            if not ok:
                fn = mod.func(e['fn'])
                rep.violate(Violation('C05.R1', '%s:%d in %s' % (IR.rel(fn.file), fn.line, fn.name), '%s can return with the mutex in typestate hold=%s spinlock=%s instead of the entry mode %s' % (e['label'], g[0], g[1], want),
                                      site='%s/exit-mode' % e['fn']))
            # R3
            if 'cond=f' in e['label'] and e['fn'] == 'nsync_mu_wait_with_deadline':
                cl = x.ghost.get(('cond_last',))
                rv = x.trace[0] if x.trace else None
                stale = x.ghost.get(('flag', 'cond_stale'))
                msg = None
                if not is_expr(cl):
                    msg = 'returns without having evaluated the condition'
                else:
                    vals = set(bool(eval_tree(cl[2], d)) for d in x.S.get(cl[1], ()))
                    if stale:
                        msg = 'the mutex was released after the last evaluation of the condition, so the result does not describe the state at return'
                    elif rv == 0 and vals != {True}:
                        msg = 'returns 0 although the last evaluation of the condition may have been false'
                    elif rv != 0 and vals != {False}:
                        msg = 'returns a timeout/cancel code although the last evaluation of the condition (made with the lock held) may have been true'
                rep.instance('C05.R3', '%s exit result %r, last condition value %s' % (e['label'], rv, sorted(set(bool(eval_tree(cl[2], d)) for d in x.S.get(cl[1], ()))) if is_expr(cl) else None))
                rep.oblig('C05.R3', msg is None)
                if msg:
                    fn = mod.func(e['fn'])
                    rep.violate(Violation('C05.R3', '%s:%d in %s' % (IR.rel(fn.file), fn.line, fn.name), '%s %s' % (e['label'], msg), site='%s/condition-trumps' % e['fn']))
    # ---- R2 (sem_wait.c)
    fn = mod.func('nsync_sem_wait_with_cancel_')
    if fn is None:
        raise AnalysisBroken('C05: nsync_sem_wait_with_cancel_ not found')
    EC, ET = K['ECANCELED'], K['ETIMEDOUT']
    defs = []
    for i in fn.real_insts():
        if i.op == 'phi':
            for v, pb in i.ops:
                if IR.is_int(v) and IR.uval(v) == EC:
                    defs.append((i, fn.bmap[pb].term, pb))
    if not defs:
        raise AnalysisBroken('C05.R2: no definition of ECANCELED found')
    def norm_guards(at):
        return [n for n in (_norm_cmp(fn, c, s) for c, s in _guards(fn, at)) if n]
    for d, at, pb in defs:
        gs = norm_guards(at)
        def tcmp(pred_ok):
            for p, a, b in gs:
                ci = fn.imap.get(a) if isinstance(a, str) else None
                if ci is not None and ci.op == 'call' and ci.callee == 'nsync_time_cmp' and IR.is_int(b) and IR.ival(b) == 0 and p in pred_ok:
                    return ci
            return None
        # cancel_time <= 0 : already notified.  When several comparisons of a note time with zero guard this definition (an unlocked pre-check
        # followed by the re-check under note_mu), the innermost one - the comparison dominated by all the others - is the current knowledge
        from ..cfg import cfg_of as _cfg_of
        tc = []
        for p_, a_, b_ in gs:
            ci_ = fn.imap.get(a_) if isinstance(a_, str) else None
            if ci_ is not None and ci_.op == 'call' and ci_.callee == 'nsync_time_cmp' and IR.is_int(b_) and IR.ival(b_) == 0 and p_ in ('sle', 'sgt', 'slt', 'sge', 'eq', 'ne'):
                tc.append((p_, ci_))
        inner = None
        for p_, ci_ in tc:
            if all(_cfg_of(fn).inst_dominates(cj, ci_) for _, cj in tc):
                inner = (p_, ci_)
        notified_path = inner is not None and inner[0] in ('sle', 'slt', 'eq')
        timed_out = any(p == 'eq' and IR.is_int(b) and IR.uval(b) == ET for p, a, b in gs)
        not_nearer = any((p == 'eq' and IR.is_int(b) and IR.ival(b) == 0 and _is_flag(fn, a)) or (p == 'ne' and False) for p, a, b in gs)
        notifies = any(j.op == 'call' and j.callee == 'nsync_note_notify' for j in fn.bmap[pb].insts)
        ok = notified_path or (timed_out and not_nearer and notifies) or _initial_default(fn, d, pb)
        rep.instance('C05.R2', 'ECANCELED from block %s: already-notified=%s timed-out=%s not-nearer=%s notifies=%s' % (pb, notified_path, timed_out, not_nearer, notifies))
        rep.oblig('C05.R2', ok)
        if not ok:
            rep.violate(Violation('C05.R2', at.where(), 'ECANCELED can be returned on a path where the note is not known to be notified (%s)' %
                                  ('the sleep ended at the caller\'s own deadline' if timed_out and not not_nearer else 'no guard establishes that the note is notified or has just expired'),
                                  site='nsync_sem_wait_with_cancel_/ecanceled-provenance'))
    # the outcome matches the deadline that was used - judged on the interpretation of the cancellable wait in which the caller's abs_deadline is
    # an opaque token pair and the timed sleep's result a symbolic value in {0, ETIMEDOUT}: a sleep that was given the caller's own deadline
    # never ends in the constant ECANCELED, and a sleep that was given another deadline (the note's expiry) never ends in ETIMEDOUT
    from .. import objmodel as _om
    from ..symex import eval_tree as _ev, is_expr as _isx
    oeng2, oruns2 = _om.analyse(ctx)
    nfl = 0
    for label, fname, exits in oruns2:
        if label != 'nsync_sem_wait_with_cancel_':
            continue
        for x in exits:
            how = x.ghost.get(('slept_with',))
            if how is None:
                continue
            rv = x.trace[0] if x.trace else None
            vals = set(_ev(rv[2], d) for d in x.S.get(rv[1], ())) if _isx(rv) else ({rv} if isinstance(rv, int) else None)
            nfl += 1
            bad = None
            if how == 'deadline' and vals is not None and EC in vals:
                bad = 'a sleep that was given the caller\'s own deadline can end in ECANCELED: a timeout at the caller\'s deadline is reported as a cancellation'
            elif how == 'other' and vals is not None and ET in vals:
                bad = 'a sleep that was given a deadline other than the caller\'s (the note\'s expiry) can end in ETIMEDOUT: the note\'s expiry is reported as the caller\'s timeout'
            elif vals is None:
                bad = 'the result of the cancellable wait is not a function of the sleep\'s outcome'
            rep.instance('C05.R2', 'exit after sleeping with %s deadline: possible results %s' % ('the caller\'s' if how == 'deadline' else 'another', sorted(vals) if vals else vals)); rep.oblig('C05.R2', bad is None)
            if bad:
                rep.violate(Violation('C05.R2', '%s:%d in %s' % (IR.rel(fn.file), fn.line, fn.name), bad, site='nsync_sem_wait_with_cancel_/deadline-flag'))
    if nfl == 0:
        raise AnalysisBroken('C05.R2: no exit of the cancellable wait after a sleep was interpreted')
    # ---- R4 (the sleep may sit in the wait function itself or in a static helper it was split into; arguments are traced through the calls)
    for wname in ('nsync_cv_wait_with_deadline_generic', 'nsync_mu_wait_with_deadline'):
        wf = mod.func(wname)
        if wf is None:
            raise AnalysisBroken('C05: %s not found' % wname)
        args64 = [a['id'] for a in wf.args if a['ty'] == 'i64']
        notearg = wf.args[-1]['id']
        if len(args64) < 2:
            raise AnalysisBroken('C05.R4: %s does not take the deadline as (seconds, nanoseconds)' % wname)
        binding = util.bind_params(mod, wf, args64[:2] + [notearg])
        nsl = 0
        for gname, env in sorted(binding.items()):
            g = mod.func(gname)
            sleeps = [i for i in g.real_insts() if i.op == 'call' and i.callee in ('nsync_sem_wait_with_cancel_', 'nsync_mu_semaphore_p', 'nsync_mu_semaphore_p_with_deadline')]
            for sl in sleeps:
                nsl += 1
                ok = sl.callee == 'nsync_sem_wait_with_cancel_' and len(sl.ops) >= 4 and sl.ops[1] == env.get(args64[0]) and sl.ops[2] == env.get(args64[1]) and sl.ops[3] == env.get(notearg)
                guarded = any(p == 'eq' and IR.is_int(b) and IR.ival(b) == 0 and isinstance(a, str) and a in g.imap and g.imap[a].op == 'phi' for p, a, b in
                              (n for n in (_norm_cmp(g, c, s_) for c, s_ in _guards(g, sl)) if n))
                rep.instance('C05.R4', '%s sleeps via %s at %s (deadline+note passed: %s, guarded by outcome == 0: %s)' % (wname, sl.callee, sl.where(), ok, guarded))
                rep.oblig('C05.R4', ok and guarded)
                if not ok:
                    rep.violate(Violation('C05.R4', sl.where(), '%s sleeps without passing on the caller\'s abs_deadline and cancel_note: once they have passed the call still needs a wake-up' % wname, site='%s/sleep-args' % wname))
                elif not guarded:
                    rep.violate(Violation('C05.R4', sl.where(), '%s can go back to sleep after the sleep already ended with a timeout/cancellation' % wname, site='%s/resleep' % wname))
        if nsl == 0:
            raise AnalysisBroken('C05.R4: no sleep found in %s' % wname)
    rep.rule('C05.R8', 'the first iteration of each wait loop reaches the sleep (so an expired deadline / notified note is applied and confirmed at once)')
    check_first_iteration_sleeps(mod, rep, 'C05.R8')
    rep.rule('C05.R9', 'the remove_count snapshot that validates a timeout is re-taken before every enqueue that leads to a timed sleep')
    check_snapshot_fresh(mod, rep, 'C05.R9')
    # ---- R5: registration on the cancel note (lockset engine)
    from .. import objmodel
    from .C08 import holds
    oeng, oruns = objmodel.analyse(ctx)
    n5 = 0
    for r in oeng.records:
        if r.kind == 'enqueue' and r.entry == 'nsync_sem_wait_with_cancel_':
            n5 += 1
            ok = holds(r.held, r.obj) and r.observed
            rep.instance('C05.R5', 'registration on the cancel note at %s, note state re-read under the lock: %s' % (r.where(), r.observed)); rep.oblig('C05.R5', ok)
            if not ok:
                rep.violate(Violation('C05.R5', r.where(), 'the waiter registers on the cancel note without re-reading the notified state inside the critical section: a notification that completed just before is missed and the wait sleeps until its deadline (or forever) instead of returning ECANCELED',
                                      site='nsync_sem_wait_with_cancel_/stale-registration'))
    if n5 == 0:
        raise AnalysisBroken('C05.R5: registration on the cancel note not found')
    # ---- R6: every cancellable sleep is registered on the note.  The entry is interpreted with a non-NULL cancel note; on each path that
    # reaches a semaphore wait the thread's record must be on cancel_note->waiters and visible (the list mutex released after the append):
    # a note can be notified explicitly at any moment - whatever its expiry - and the notifier wakes only the records on that list
    rep.rule('C05.R6', 'every sleep of the cancellable wait is registered on the cancel note (explicit notification can come at any time)')
    n6 = 0
    for r in oeng.records:
        if r.kind == 'prim' and r.entry == 'nsync_sem_wait_with_cancel_' and r.callee in ('nsync_mu_semaphore_p', 'nsync_mu_semaphore_p_with_deadline'):
            n6 += 1
            reg = any(isinstance(k, tuple) and k[0] == 'enq_local' and v == 2 for k, v in r.ghost.items())
            rep.instance('C05.R6', 'sleep at %s, registered on the note: %s' % (r.where(), reg)); rep.oblig('C05.R6', reg)
            if not reg:
                rep.violate(Violation('C05.R6', r.where(), 'the cancellable wait can sleep without its record being on the cancel note\'s waiter list: an nsync_note_notify issued meanwhile wakes nobody and the call sleeps on until its deadline although the note is notified',
                                      site='nsync_sem_wait_with_cancel_/unregistered-sleep'))
    if n6 == 0:
        raise AnalysisBroken('C05.R6: no sleep found in the cancellable wait')
    # ---- R7: "ETIMEDOUT only if the deadline has been reached": the only source of ETIMEDOUT in both wait families is the timed semaphore wait
    # (R2 / R4 above: the result code is that call's, converted at most to ECANCELED); there it may be defined only where the kernel wait failed
    # with errno ETIMEDOUT *and* the clock has been re-read and agrees (an interrupted or early-returning kernel wait must loop) - same guard
    # rule as C12.R3, judged here for the wait families' contract
    from . import C12
    rep.rule('C05.R7', 'ETIMEDOUT originates only where the kernel wait timed out and the re-read clock has reached the deadline')
    C12.check_timeout_guards(mod, K, rep, 'C05.R7')
    rep.floor('C05.R1', 10)
    rep.floor('C05.R3', 4)
    rep.assumptions += ['wall-clock promptness is not decided', 'C12/C15 decide when the semaphore wait itself reports ETIMEDOUT']
    return rep.finish(
        explanation='R1/R3 from the abstract interpreter (typestate at exit; the condition result is a symbolic boolean whose value set at each exit is compared with the returned code); R2/R4 are guard (dominance) and argument rules on sem_wait.c and the two wait loops.',
        trusted_base=['clang 14 IR', 'nsa/symex.py', 'dominators'])

def check_snapshot_fresh(mod, rep, rid):
    """A waiter that times out may declare the timeout (and unlink itself) only if nobody dequeued it meanwhile; it finds out by comparing
    w->remove_count with a snapshot.  Every dequeue by another thread increments the counter, so the snapshot is good for ONE stay on the queue:
    it must be re-taken after the previous timed sleep and before the enqueue that leads to the next one.  With a stale snapshot the comparison
    fails for ever after the first wake-up, the timeout is never confirmed and the call spins although its deadline has passed.
    CFG rule, per function of the two wait families that contains the timed sleep T: for every enqueue E from which T is reachable without
    another enqueue, every path T -> E passes a load of waiter.remove_count that is a snapshot (a sleep can follow it before it is used)."""
    from ..cfg import paths_avoiding
    SLEEP = ('nsync_sem_wait_with_cancel_',)
    ENQ = ('nsync_dll_make_last_in_list_', 'nsync_dll_make_first_in_list_')
    n = 0
    cg = util.callgraph(mod)
    for wname in ('nsync_cv_wait_with_deadline_generic', 'nsync_mu_wait_with_deadline'):
        wf = mod.func(wname)
        if wf is None or wf.decl:
            raise AnalysisBroken('%s: %s not found' % (rid, wname))
        for gname in sorted(util.bind_params(mod, wf, [])):
            g = mod.func(gname)
            # the sleep / the enqueue, or a call of a static helper that contains it (but not both: then the helper is judged itself)
            def via(callee, what, other):
                if callee in what:
                    return True
                h = mod.func(callee) if callee else None
                if h is None or h.decl or not h.internal or callee == gname:
                    return False
                # calls made by the helper and by the static helpers below it (public functions are not descended into: the sleep itself
                # reaches list operations of other objects through the note mutex)
                r, work = set(), [callee]
                while work:
                    x = work.pop()
                    for y in cg.get(x, ()):
                        if y not in r:
                            r.add(y)
                            hy = mod.func(y)
                            if hy is not None and not hy.decl and hy.internal:
                                work.append(y)
                return bool(r & set(what)) and not (r & set(other))
            sleeps = [i for i in g.real_insts() if i.op == 'call' and via(i.callee, SLEEP, ENQ)]
            enqs = [i for i in g.real_insts() if i.op == 'call' and via(i.callee, ENQ, SLEEP)]
            if not sleeps or not enqs:
                continue
            um = util.users_map(g)
            def users_closure(i):
                out, work = set(), [i.id]
                while work:
                    x = work.pop()
                    for u in um.get(x, []):
                        if id(u) in out:
                            continue
                        out.add(id(u))
                        if u.op in ('phi', 'zext', 'sext', 'trunc', 'bitcast'):
                            work.append(u.id)
                return out
            def rc_loads(h):
                return [i for i in h.real_insts() if i.op == 'load' and isinstance(i.ops[0], str)
                        and util.last_field(util.addr_class(mod, h, i.ops[0])) == 'waiter.remove_count']
            loads = rc_loads(g)
            # ... or a call of a helper that returns such a load (a snapshot accessor)
            for c in g.real_insts():
                if c.op == 'call' and c.callee and c.callee not in SLEEP:
                    h = mod.func(c.callee)
                    if h is not None and not h.decl and h.internal:
                        hl = set(x.id for x in rc_loads(h))
                        if hl and any(r.op == 'ret' and r.ops and isinstance(r.ops[0], str) and r.ops[0] in hl for r in h.real_insts()):
                            loads.append(c)
            snaps = []
            for l in loads:
                us = users_closure(l)
                if us and paths_avoiding(g, l, lambda i: any(i is t for t in sleeps), lambda i: id(i) in us and not any(i is t for t in sleeps)) is not None:
                    snaps.append(l)
            sn = set(id(x) for x in snaps)
            for T in sleeps:
                for E in enqs:
                    others = set(id(x) for x in enqs if x is not E)
                    if paths_avoiding(g, E, lambda i: i is T, lambda i: id(i) in others) is None:
                        continue
                    if paths_avoiding(g, T, lambda i: i is E, lambda i: False) is None:
                        continue    # the thread never enqueues again after this sleep
                    # the snapshot may also be taken just after the enqueue (still inside the spinlock: nobody can have dequeued the record
                    # yet) - what matters is that every trip sleep -> enqueue -> sleep takes one
                    stale = paths_avoiding(g, T, lambda i: i is E, lambda i: id(i) in sn)
                    if stale is not None and paths_avoiding(g, E, lambda i: i is T, lambda i: id(i) in sn or id(i) in others) is None:
                        stale = None
                    n += 1
                    rep.instance(rid, '%s: enqueue at %s leads to the timed sleep at %s again; snapshot of remove_count re-taken in between (%d snapshot load(s)): %s'
                                 % (gname, E.where(), T.where(), len(snaps), stale is None)); rep.oblig(rid, stale is None)
                    if stale is not None:
                        rep.violate(Violation(rid, E.where(),
                            '%s can go from its timed sleep back to the enqueue and sleep again without re-reading w->remove_count: the snapshot predates a dequeue by a waker, the "nobody dequeued me" comparison fails on every later timeout, and the call never confirms the timeout - it spins past its deadline' % gname,
                            site='%s/stale-remove-count' % gname))
    if n == 0:
        raise AnalysisBroken('%s: no wait loop that re-enqueues after a timed sleep found (nsync_mu_wait_with_deadline has one)' % rid)

def check_first_iteration_sleeps(mod, rep, rid):
    """In each wait loop of the two wait families (the loop that polls the thread's own waiting flag and contains the cancellable sleep) the
    FIRST iteration reaches the sleep on every path that stays in the loop.  The sleep is what applies the caller's deadline and note: it returns
    at once when they have passed, and the timeout is then confirmed under the spinlock.  A first iteration that can skip the sleep (an outcome
    variable primed to ETIMEDOUT for an already expired deadline, say) skips that confirmation too and spins on the flag until somebody happens
    to wake the thread: an expired deadline hangs instead of timing out.  Branches that depend only on the values the loop-header phis have on
    entry (constants) are resolved; all others are taken both ways."""
    SLEEP = ('nsync_sem_wait_with_cancel_',)
    n = 0
    for wname in ('nsync_cv_wait_with_deadline_generic', 'nsync_mu_wait_with_deadline'):
        wf = mod.func(wname)
        if wf is None or wf.decl:
            raise AnalysisBroken('%s: %s not found' % (rid, wname))
        fams = util.bind_params(mod, wf, [])
        for gname in sorted(fams):
            g = mod.func(gname)
            cfg = cfg_of(g)
            loops = cfg.loops()
            for sl in [i for i in g.real_insts() if i.op == 'call' and i.callee in SLEEP]:
                inl = [h for h, body in loops.items() if sl.block.id in body]
                if not inl:
                    continue
                h = min(inl, key=lambda x: len(loops[x]))
                body = loops[h]
                outside = [p for p in g.bmap[h].preds if p not in body]
                # values of the header phis on entry
                env = {}
                for i in g.bmap[h].insts:
                    if i.op == 'phi':
                        vals = [v for v, pb in i.ops if pb in outside]
                        if vals and all(IR.is_int(v) for v in vals) and len(set(IR.ival(v) for v in vals)) == 1:
                            env[i.id] = IR.ival(vals[0])
                def decide(cond_ref):
                    c = g.imap.get(cond_ref) if isinstance(cond_ref, str) else None
                    if c is None or c.op != 'icmp':
                        return None
                    def cv(o):
                        if IR.is_int(o):
                            return IR.ival(o)
                        return env.get(o) if isinstance(o, str) else None
                    a, b = cv(c.ops[0]), cv(c.ops[1])
                    if a is None or b is None:
                        return None
                    return {'eq': a == b, 'ne': a != b, 'sgt': a > b, 'sge': a >= b, 'slt': a < b, 'sle': a <= b,
                            'ugt': a > b, 'uge': a >= b, 'ult': a < b, 'ule': a <= b}.get(c.x['pred'])
                # search: from the header, a path back to the header (second iteration) that does not pass the sleep
                bad = None
                seen = set()
                work = [(h, False)]
                while work and bad is None:
                    b, _ = work.pop()
                    if b in seen:
                        continue
                    seen.add(b)
                    if any(i is sl or (i.op == 'call' and i.callee in SLEEP) for i in g.bmap[b].insts):
                        continue
                    term = g.bmap[b].term
                    succs = list(g.bmap[b].succ)
                    if term.op == 'br' and len(term.x['targets']) == 2:
                        d = decide(term.ops[0])
                        if d is not None:
                            succs = [term.x['targets'][0] if d else term.x['targets'][1]]
                    for t in succs:
                        if t == h and b != h or (t == h and b == h):
                            bad = b
                            break
                        if t in body:
                            work.append((t, False))
                n += 1
                rep.instance(rid, '%s: first iteration of the wait loop at %s reaches the sleep before it can iterate again: %s' % (gname, sl.where(), bad is None)); rep.oblig(rid, bad is None)
                if bad is not None:
                    rep.violate(Violation(rid, g.bmap[bad].term.where(), '%s: the first iteration of the wait loop can go round without sleeping (the sleep at %s is skipped, e.g. because an outcome variable is non-zero on entry): the deadline / cancellation is then never applied and confirmed, and the thread spins on its waiting flag until it happens to be woken - an already expired deadline hangs' % (wname, sl.where()),
                                          site='%s/first-iteration-skips-sleep' % wname))
    if n == 0:
        raise AnalysisBroken('%s: no wait loop with a cancellable sleep found' % rid)

def _is_flag(fn, ref):
    i = fn.imap.get(ref) if isinstance(ref, str) else None
    if i is not None and i.op == 'zext' and i.x.get('sty') == 'i1':
        return True          # a flag computed as (comparison)
    if i is not None and i.op == 'call' and i.callee and i.ty == 'i32':
        g = fn.mod.func(i.callee)
        if g is not None and not g.decl and g.internal:
            return True      # ... or by a static predicate (the agreement of flag and deadline is judged on the interpretation below)
    return i is not None and i.op == 'phi' and i.ty == 'i32' and sorted(IR.ival(v) for v, _ in i.ops if IR.is_int(v)) == [0, 1]

def _initial_default(fn, phi, pb):
    """sem_outcome = ECANCELED assigned before the test of cancel_time > 0 and surviving only on its false edge"""
    t = fn.bmap[pb].term
    if t.op != 'br' or len(t.x['targets']) != 2 or not isinstance(t.ops[0], str):
        return False
    c = fn.imap.get(t.ops[0])
    n = _norm_cmp(fn, c, t.x['targets'][0] == phi.block.id) if c is not None else None
    if not n:
        return False
    ci = fn.imap.get(n[1]) if isinstance(n[1], str) else None
    return ci is not None and ci.op == 'call' and ci.callee == 'nsync_time_cmp' and n[0] == 'sle' and IR.is_int(n[2]) and IR.ival(n[2]) == 0

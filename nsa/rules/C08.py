"""C08 - a note is a one-way flag set by notify, by its deadline, or by an ancestor.

R1  every store to `notified` writes the constant 1 (the constructor clears the fresh object with memset) - so the flag is monotone.
R2  the notifier stores the flag and wakes the waiters while holding the note's mutex: every waker store / semaphore V on records taken from
    n->waiters, and the store of the flag itself, happen with n->note_mu held (lockset); the drain loop visits every waiter (shape, shared with C02.R4).
R3  lazy expiry: nsync_note_notified_deadline_ calls the notifier on the path 0 < expiry <= now.
R4  nsync_note_new stores abs_deadline as the expiry and replaces it by the parent's time exactly under cmp(parent_time, abs_deadline) < 0.
R5  field protection (lockset): parent, waiters, disconnecting, children of a note are accessed only with that note's mutex held
    (the object a constructor has just allocated is exempt until it is linked).
R6  no stale registration: an element is appended to n->waiters (or a child to parent->children by the constructor) only in a critical section of
    the note's mutex in which the notified flag was (re-)read - otherwise a notification that completed in between leaves the new waiter/child
    on an already drained note, never to be woken/notified.  (Appends made by nsync_note_free's adoption are judged by C09.R5.)
R8  after storing the flag the marker waits for the note's child list to drain on every path to its return, parent or no parent.
R9  "all descendants notified, waiters released": the notifier of a parent sleeps (nsync_mu_wait) until its child list drains; the critical
    sections that unlink a child or store the flag therefore end with a condition-evaluating unlock, never nsync_mu_unlock_without_wakeup
    (= C09.R8, judged here for the notifier that would otherwise never finish and leave the remaining descendants un-notified).
R7  when nsync_note_notify returns the note is notified: every path through the notifier calls the marker, took the "not > 0" edge of the
    note-time test under the mutex, or waits (nsync_mu_wait on a condition reading the flag) for the notifier already in progress.
Cross-thread histories ("no observer ever sees it un-notified again", descendants notified once no notification is in progress) are not decided."""
from .. import util, ir as IR, objmodel, wakeshape
from ..bounds import _guards, _norm_cmp
from ..report import Violation, AnalysisBroken
from ..symex import Ptr
from ..cfg import paths_avoiding

PROTECTED = ('nsync_note_s_.parent', 'nsync_note_s_.waiters', 'nsync_note_s_.disconnecting', 'nsync_note_s_.children')
MU = 'nsync_note_s_.note_mu'

def holds(held, obj, mfield=MU):
    return any(isinstance(m, Ptr) and m.base == obj.base and m.path[:-1] == obj.path and m.path and m.path[-1][1] == mfield for m in held)

def guards_of(fn, inst):
    return [n for n in (_norm_cmp(fn, c, s) for c, s in _guards(fn, inst)) if n]

def time_cmp_guard(fn, inst, pred_ok, second_is=None, first_is=None):
    """is inst dominated by an edge on which nsync_time_cmp(x, y) <pred> 0 holds, with y (resp. x) described by second_is / first_is"""
    for pred, a, b in guards_of(fn, inst):
        ci = fn.imap.get(a) if isinstance(a, str) else None
        if ci is None or ci.op != 'call' or ci.callee != 'nsync_time_cmp' or not (IR.is_int(b) and IR.ival(b) == 0):
            continue
        if pred not in pred_ok:
            continue
        ok = True
        if second_is is not None:
            ok = ok and all(second_is(fn, o) for o in ci.ops[2:4])
        if first_is is not None:
            ok = ok and all(first_is(fn, o) for o in ci.ops[0:2])
        if ok:
            return ci
    return None

def is_global_load(name):
    def f(fn, o):
        i = fn.imap.get(o) if isinstance(o, str) else None
        return i is not None and i.op == 'load' and name in repr(i.ops[0])
    return f

def is_call_result(callee):
    def f(fn, o):
        i = fn.imap.get(o) if isinstance(o, str) else None
        while i is not None and i.op == 'extractvalue':
            i = fn.imap.get(i.ops[0])
        return i is not None and i.op == 'call' and i.callee == callee
    return f

def check_notify_returns_notified(mod, rep, rid):
    """R7 - "when nsync_note_notify returns the note itself is notified".  In the function N that takes the note's mutex and calls the marker M
    (the function storing notified = 1), every path from entry to return must pass through (a) the call of M, or (b) the false edge of a
    `nsync_time_cmp (note time, zero) > 0` test (the note was seen notified / expired under the mutex), or (c) an unconditional nsync_mu_wait
    on a condition function that reads the notified flag (another notifier is doing the work; wait until it has marked the note)."""
    from ..bounds import _expand
    NOTIFIED = 'nsync_note_s_.notified'
    markers = set()
    for f in mod.defined.values():
        for i in f.real_insts():
            if i.op == 'store' and i.ord != 'na' and IR.is_int(i.ops[0]) and IR.ival(i.ops[0]) == 1 and util.last_field(util.addr_class(mod, f, i.ops[1])) == NOTIFIED:
                markers.add(f.name)
    def reads_flag(fname):
        f = mod.func(fname)
        return f is not None and not f.decl and any(i.op == 'load' and util.last_field(util.addr_class(mod, f, i.ops[0])) == NOTIFIED for i in f.real_insts())
    n = 0
    for f in mod.defined.values():
        if f.name in markers or not any(i.op == 'call' and i.callee in markers for i in f.real_insts()):
            continue
        # the notifier proper: it locks the mutex of the note it was given (its own argument), not that of a child reached through a list
        def locks_own_arg(i):
            if not (i.op == 'call' and i.callee == 'nsync_mu_lock'):
                return False
            ac = util.addr_class(mod, f, i.ops[0])
            return ac['kind'] == 'arg' and util.last_field(ac) == MU and len([x for x in ac['path'] if '.' in x]) == 1
        if not any(locks_own_arg(i) for i in f.real_insts()):
            continue
        def block_ok(b):
            for i in f.bmap[b].insts:
                if i.op == 'call' and i.callee in markers:
                    return True
                if i.op == 'call' and i.callee == 'nsync_mu_wait' and len(i.ops) >= 2 and isinstance(i.ops[1], dict) and i.ops[1].get('k') == 'func' and reads_flag(i.ops[1]['n']):
                    return True
            return False
        def edge_ok(b, t):
            term = f.bmap[b].term
            if term.op != 'br' or len(term.x['targets']) != 2 or term.x['targets'][0] == term.x['targets'][1] or not isinstance(term.ops[0], str) or term.ops[0] not in f.imap:
                return False
            out = []
            _expand(f, f.imap[term.ops[0]], term.x['targets'][0] == t, out, 0)
            for c_, s_ in out:
                nm = _norm_cmp(f, c_, s_)
                if nm and nm[0] in ('sle', 'slt', 'eq') and IR.is_int(nm[2]) and IR.ival(nm[2]) == 0:
                    ci = f.imap.get(nm[1]) if isinstance(nm[1], str) else None
                    if ci is not None and ci.op == 'call' and ci.callee == 'nsync_time_cmp':
                        return True
            return False
        seen, work, bad = set(), [f.entry.id], None
        while work and bad is None:
            b = work.pop()
            if b in seen:
                continue
            seen.add(b)
            if block_ok(b):
                continue
            if f.bmap[b].term.op == 'ret':
                bad = b
                break
            for t in f.bmap[b].succ:
                if not edge_ok(b, t):
                    work.append(t)
        n += 1
        rep.instance(rid, '%s: every path marks the note, saw it notified, or waits for the marking notifier: %s' % (f.name, bad is None)); rep.oblig(rid, bad is None)
        if bad is not None:
            rep.violate(Violation(rid, f.bmap[bad].term.where(), '%s can return on a path that neither marks the note notified, nor found it notified under its mutex, nor waits for another notifier to mark it: nsync_note_notify returns while the note is still un-notified' % f.name,
                                  site='%s/returns-unnotified' % f.name))
    if n == 0:
        raise AnalysisBroken('%s: the notifier (function that locks the note and calls the marker) was not found' % rid)

def check_marker_waits_for_children(mod, rep, rid):
    """R8 - "once no notification of it or of an ancestor is still in progress all its descendants are notified".  The marker (the function that
    stores notified = 1) skips children that another thread is already disconnecting; those finish on their own and leave the child list.  So
    on every path from the store of the flag to the marker's return there is a conditional wait on the note's mutex (the wait for an empty
    child list) - whether or not the note has a parent."""
    NOTIFIED = 'nsync_note_s_.notified'
    n = 0
    for f in mod.defined.values():
        stores = [i for i in f.real_insts() if i.op == 'store' and i.ord != 'na' and IR.is_int(i.ops[0]) and IR.ival(i.ops[0]) == 1
                  and util.last_field(util.addr_class(mod, f, i.ops[1])) == NOTIFIED]
        for st_ in stores:
            def is_wait(i):
                if i.op != 'call':
                    return False
                if i.callee in ('nsync_mu_wait', 'nsync_mu_wait_with_deadline', 'nsync_cv_wait', 'nsync_cv_wait_with_deadline'):
                    return True
                h = mod.func(i.callee) if i.callee else None          # a static helper that does the waiting
                return h is not None and not h.decl and h.internal and any(j.op == 'call' and j.callee in ('nsync_mu_wait', 'nsync_cv_wait') for j in h.real_insts())
            skip = paths_avoiding(f, st_, lambda i: i.op == 'ret', is_wait)
            n += 1
            rep.instance(rid, '%s: wait for the child list to drain on every path after the flag store at %s: %s' % (f.name, st_.where(), skip is None)); rep.oblig(rid, skip is None)
            if skip is not None:
                rep.violate(Violation(rid, st_.where(), '%s can return after marking the note without waiting for its child list to drain: children that were skipped because another thread is disconnecting them are still un-notified when nsync_note_notify of the note (or of an ancestor) returns' % f.name,
                                      site='%s/no-wait-for-children' % f.name))
    if n == 0:
        raise AnalysisBroken('%s: the store of the notified flag was not found' % rid)

def _check_expiry_via_helper(mod, fn, rep):
    """see the caller; returns False when the shape is not this one (nothing is reported then)"""
    dl = [a['id'] for a in fn.args if a['ty'] == 'i64']
    if len(dl) < 2:
        return False
    def stores_expiry(g):
        return any(j.op == 'store' and util.last_field(util.addr_class(mod, g, j.ops[1])) == 'nsync_note_s_.expiry_time_valid' for j in g.real_insts())
    found = False
    inherits = False
    for c in fn.real_insts():
        if c.op != 'call' or not c.callee:
            continue
        h = mod.func(c.callee)
        if h is None or h.decl or not h.internal or not (h.file or '').endswith('note.c'):
            continue
        # h hands two of its i64 parameters, in order, to a function that stores the expiry (or stores them itself)
        hp = [a['id'] for a in h.args if a['ty'] == 'i64']
        passes = stores_expiry(h) or any(j.op == 'call' and j.callee and mod.func(j.callee) is not None and not mod.func(j.callee).decl
                                         and stores_expiry(mod.func(j.callee)) and len(hp) >= 2 and hp[0] in j.ops and hp[1] in j.ops for j in h.real_insts())
        if not passes or len(hp) < 2:
            continue
        ks = [k for k, a in enumerate(h.args) if a['ty'] == 'i64'][:2]
        sec, nsec = c.ops[ks[0]], c.ops[ks[1]]
        # the incoming (seconds, nanoseconds) pairs
        pairs = []
        ps, pn = fn.imap.get(sec) if isinstance(sec, str) else None, fn.imap.get(nsec) if isinstance(nsec, str) else None
        if [sec, nsec] == dl[:2]:
            pairs = [((sec, nsec), None)]
        elif ps is not None and pn is not None and ps.op == 'phi' and pn.op == 'phi' and ps.block is pn.block and [b for _, b in ps.ops] == [b for _, b in pn.ops]:
            pairs = [((v1, v2), b) for (v1, b), (v2, _) in zip(ps.ops, pn.ops)]
        else:
            return False
        found = True
        for (v1, v2), pb in pairs:
            if [v1, v2] == dl[:2]:
                rep.instance('C08.R4', 'expiry := abs_deadline (handed to %s at %s)' % (h.name, c.where())); rep.oblig('C08.R4', True)
                continue
            g = time_cmp_guard(fn, fn.bmap[pb].term, ('slt',)) if pb is not None else None
            ok = g is not None and list(g.ops[0:2]) == [v1, v2] and list(g.ops[2:4]) == dl[:2]
            if not ok and pb is not None:
                # the selecting branch may be pb's own terminator
                t = fn.bmap[pb].term
                if t.op == 'br' and len(t.x['targets']) == 2 and isinstance(t.ops[0], str) and t.ops[0] in fn.imap:
                    n_ = _norm_cmp(fn, fn.imap[t.ops[0]], t.x['targets'][0] == ps.block.id)
                    ci = fn.imap.get(n_[1]) if n_ and isinstance(n_[1], str) else None
                    ok = bool(n_) and n_[0] == 'slt' and IR.is_int(n_[2]) and IR.ival(n_[2]) == 0 and ci is not None and ci.op == 'call' and ci.callee == 'nsync_time_cmp' \
                        and list(ci.ops[0:2]) == [v1, v2] and list(ci.ops[2:4]) == dl[:2]
            rep.instance('C08.R4', 'expiry := another time (handed to %s at %s), on an edge that compared it earlier than abs_deadline: %s' % (h.name, c.where(), ok)); rep.oblig('C08.R4', ok)
            if not ok:
                rep.violate(Violation('C08.R4', c.where(), 'the child can be given another expiry than abs_deadline on a path that has not compared that time as earlier than abs_deadline: the expiry is no longer the minimum over the ancestors', site='nsync_note_new/expiry-min'))
        inherits = inherits or any([v1, v2] != dl[:2] for (v1, v2), _ in pairs)
    if found and not inherits:
        rep.oblig('C08.R4', False)
        rep.violate(Violation('C08.R4', '%s:%d in nsync_note_new' % (IR.rel(fn.file), fn.line), 'the parent\'s earlier expiry is never inherited', site='nsync_note_new/expiry-inherit'))
    return found

def run(ctx, rep):
    mod = ctx.mod('C')
    eng, runs = objmodel.analyse(ctx)
    rep.functions.update(f for r in eng.records for f in r.stack)
    for rid, d in (('C08.R1', 'notified is only ever stored as 1'), ('C08.R2', 'flag store and waiter wake-ups happen under the note mutex; drain loop complete'),
                   ('C08.R3', 'lazy expiry notifies on 0 < expiry <= now'), ('C08.R4', 'child expiry = min(parent time, own deadline)'),
                   ('C08.R5', 'parent / waiters / disconnecting / children only under the owning note mutex'),
                   ('C08.R6', 'appends to waiters / children re-read the notified flag inside the critical section')):
        rep.rule(rid, d)
    # ---- R1
    for s in util.atomic_sites(mod):
        if s.kind in ('store', 'cas', 'rmw') and util.last_field(util.addr_class(mod, s.fn, s.addr)) == 'nsync_note_s_.notified':
            ok = s.kind == 'store' and IR.is_int(s.ops[0]) and IR.ival(s.ops[0]) == 1
            rep.instance('C08.R1', '%s at %s' % (s.kind, s.where()))
            rep.oblig('C08.R1', ok)
            if not ok:
                rep.violate(Violation('C08.R1', s.where(), 'the notified flag is written with something other than the constant 1: a notified note could become un-notified', site='%s/notified-write' % s.fn.name))
    for f in mod.defined.values():
        for i in f.real_insts():
            if i.op == 'store' and i.ord == 'na' and util.last_field(util.addr_class(mod, f, i.ops[1])) == 'nsync_note_s_.notified':
                rep.instance('C08.R1', 'plain store at %s' % i.where()); rep.oblig('C08.R1', False)
                rep.violate(Violation('C08.R1', i.where(), 'non-atomic store to the notified flag', site='%s/notified-write' % f.name))
    rep.floor('C08.R1', 1)
    # ---- R2 / R5 from access records
    for r in eng.records:
        if r.kind == 'access':
            if r.field == 'nsync_note_s_.notified' and r.access == 'store':
                ok = holds(r.held, r.obj)
                rep.instance('C08.R2', 'notified stored at %s [%s]' % (r.where(), r.entry)); rep.oblig('C08.R2', ok)
                if not ok:
                    rep.violate(Violation('C08.R2', r.where(), 'the notified flag is set without holding the note mutex: enqueuers that re-check the flag under the mutex can miss it [entry %s]' % r.entry, site='%s/notified-unlocked' % r.inst.fn.name))
            elif r.field == 'nsync_waiter_s.waiting' and r.access == 'store' and r.obj.base.startswith('ld:') and any(x in r.stack for x in ('note_notify_child',)):
                ok = any(m.path and m.path[-1][1] == MU for m in r.held)
                rep.instance('C08.R2', 'waiter woken at %s [%s]' % (r.where(), r.entry)); rep.oblig('C08.R2', ok)
                if not ok:
                    rep.violate(Violation('C08.R2', r.where(), "a note waiter's record is written after the note mutex was released: the dequeuer (which takes that mutex) may already have discarded the record [entry %s]" % r.entry, site='%s/wake-unlocked' % r.inst.fn.name))
            elif r.field in PROTECTED:
                exempt = r.obj.base.startswith('heap:')
                ok = exempt or holds(r.held, r.obj)
                if ok and not exempt and r.access in ('store', 'cas'):
                    # a write needs the mutex in write mode: two readers can be inside together
                    mode = next((md for m, md in r.held.items() if isinstance(m, Ptr) and m.base == r.obj.base and m.path[:-1] == r.obj.path and m.path and m.path[-1][1] == MU), None)
                    if mode != 'W':
                        rep.instance('C08.R5', '%s of %s at %s under a %s hold [%s]' % (r.access, r.field, r.where(), mode, r.entry)); rep.oblig('C08.R5', False)
                        rep.violate(Violation('C08.R5', r.where(), '%s of %s while the note\'s mutex is held in read mode only: two threads can be in that critical section together (e.g. two creators of children of the same parent) and the list is corrupted / a child is lost and never notified [entry %s]' % (r.access, r.field, r.entry),
                                              site='%s/write-under-read-lock-%s' % (r.inst.fn.name, r.field.split('.')[1])))
                        continue
                rep.instance('C08.R5', '%s of %s at %s [%s]' % (r.access, r.field, r.where(), r.entry)); rep.oblig('C08.R5', ok)
                if not ok:
                    rep.violate(Violation('C08.R5', r.where(), '%s of %s without holding that note\'s mutex (held: %s) [entry %s]' % (r.access, r.field, [m.base for m in r.held] or 'nothing', r.entry),
                                          site='%s/unprotected-%s' % (r.inst.fn.name, r.field.split('.')[1])))
        elif r.kind == 'prim' and r.callee == 'nsync_mu_semaphore_v' and 'note_notify_child' in r.stack:
            ok = any(m.path and m.path[-1][1] == MU for m in r.held)
            rep.instance('C08.R2', 'semaphore V at %s [%s]' % (r.where(), r.entry)); rep.oblig('C08.R2', ok)
            if not ok:
                rep.violate(Violation('C08.R2', r.where(), 'a note waiter is posted after the note mutex was released [entry %s]' % r.entry, site='%s/post-unlocked' % r.inst.fn.name))
        elif r.kind == 'enqueue' and r.field.startswith('nsync_note_s_.'):
            if r.entry == 'nsync_note_free':
                continue
            ok = holds(r.held, r.obj) and r.observed
            rep.instance('C08.R6', 'append to %s at %s [%s] observed=%s' % (r.field, r.where(), r.entry, r.observed)); rep.oblig('C08.R6', ok)
            if not ok:
                what = 'waiter' if r.field.endswith('waiters') else 'child'
                rep.violate(Violation('C08.R6', r.where(), 'a %s is linked onto the note %s the notified flag inside this critical section: a notification that completed just before leaves the %s on an already drained note (never %s) [entry %s]'
                                      % (what, 'without holding its mutex and without re-reading' if not holds(r.held, r.obj) else 'without re-reading', what, 'woken' if what == 'waiter' else 'notified', r.entry),
                                      site='%s/stale-append-%s' % (r.inst.fn.name, r.field.split('.')[1])))
    wakeshape.check_wake_loops(mod, rep, 'C08.R2', only_files=('note.c',))
    # ---- R3
    fn = mod.func('nsync_note_notified_deadline_')
    if fn is None:
        raise AnalysisBroken('C08: nsync_note_notified_deadline_ not found')
    calls = [i for i in fn.real_insts() if i.op == 'call' and i.callee and i.callee not in ('nsync_time_cmp', 'nsync_time_now', 'nsync_mu_lock', 'nsync_mu_unlock') and not i.callee.startswith('llvm.')
             and mod.func(i.callee) is not None and (mod.func(i.callee).file or '').endswith('note.c')]
    ok3 = False
    for c in calls:
        g1 = time_cmp_guard(fn, c, ('sgt',), second_is=is_global_load('nsync_time_zero'))
        g2 = time_cmp_guard(fn, c, ('sle',), second_is=is_call_result('nsync_time_now')) or time_cmp_guard(fn, c, ('sge',), first_is=is_call_result('nsync_time_now'))
        if g1 is not None and g2 is not None:
            ok3 = True
            rep.instance('C08.R3', 'expiry-driven call to %s at %s' % (c.callee, c.where()))
    rep.oblig('C08.R3', ok3)
    if not ok3:
        rep.instance('C08.R3', 'no expiry-driven notification found')
        rep.violate(Violation('C08.R3', '%s:%d in %s' % (IR.rel(fn.file), fn.line, fn.name), 'no call of the notifier guarded by 0 < expiry <= now: a note whose deadline has passed is not reported as notified', site='nsync_note_notified_deadline_/lazy-expiry'))
    # ---- R4
    fn = mod.func('nsync_note_new')
    setters = [i for i in fn.real_insts() if i.op == 'call' and i.callee and mod.func(i.callee) is not None and
               any(j.op == 'store' and util.last_field(util.addr_class(mod, mod.func(i.callee), j.ops[1])) == 'nsync_note_s_.expiry_time_valid' for j in mod.func(i.callee).real_insts())]
    direct = [i for i in fn.real_insts() if i.op == 'store' and (util.last_field(util.addr_class(mod, fn, i.ops[1])) or '').startswith('nsync_note_s_.expiry_time')]
    if not setters and not direct:
        # the expiry may be handed to an allocating helper that stores it (`n = note_alloc (deadline)`), with the minimum computed beforehand:
        # each value that can reach the helper's (seconds, nanoseconds) parameters is then either the caller's abs_deadline or a time that
        # the edge it comes in on has compared as earlier than abs_deadline
        if _check_expiry_via_helper(mod, fn, rep):
            setters = None
        else:
            raise AnalysisBroken('C08.R4: the expiry assignment in nsync_note_new was not found')
    via_helper = setters is None
    setters = setters or []
    dl = [a['id'] for a in fn.args if a['ty'] == 'i64']
    base_ok = via_helper
    for s in setters:
        ops = list(s.ops[1:3])
        if ops == dl[:2]:
            base_ok = True
            rep.instance('C08.R4', 'expiry := abs_deadline at %s' % s.where())
        else:
            g = time_cmp_guard(fn, s, ('slt',))
            okp = g is not None and list(g.ops[2:4]) == dl[:2] and list(g.ops[0:2]) == ops
            rep.instance('C08.R4', 'expiry := parent time at %s' % s.where())
            rep.oblig('C08.R4', okp)
            if not okp:
                rep.violate(Violation('C08.R4', s.where(), 'the child takes another expiry than abs_deadline on a path that is not guarded by (that time < abs_deadline): the expiry is no longer the minimum over the ancestors', site='nsync_note_new/expiry-min'))
    rep.oblig('C08.R4', base_ok)
    if not base_ok:
        rep.violate(Violation('C08.R4', '%s:%d in nsync_note_new' % (IR.rel(fn.file), fn.line), 'abs_deadline is not stored as the initial expiry', site='nsync_note_new/expiry-init'))
    pt = [s for s in setters if list(s.ops[1:3]) != dl[:2]]
    if not pt and not via_helper:
        rep.oblig('C08.R4', False)
        rep.violate(Violation('C08.R4', '%s:%d in nsync_note_new' % (IR.rel(fn.file), fn.line), 'the parent\'s earlier expiry is never inherited', site='nsync_note_new/expiry-inherit'))
    rep.rule('C08.R8', 'after marking a note the marker waits, on every path, for the child list to drain (children being disconnected elsewhere)')
    check_marker_waits_for_children(mod, rep, 'C08.R8')
    rep.rule('C08.R7', 'the notifier returns only after marking the note, seeing it notified, or waiting for the marking notifier')
    check_notify_returns_notified(mod, rep, 'C08.R7')
    from . import C09
    rep.rule('C08.R9', 'critical sections that change a child list or the flag end with a waking unlock (the draining notifier is a conditional waiter)')
    C09.check_waking_unlock(eng, rep, 'C08.R9')
    rep.floor('C08.R2', 3)
    rep.floor('C08.R5', 15)
    rep.floor('C08.R6', 2)
    rep.assumptions += ['the nsync_mu API behaves as a lock (established by C01/C02 for the implementation)',
                        'histories across threads are not computed; these are the structural clauses whose violation breaks the property']
    return rep.finish(
        explanation='Lockset interpretation of note.c and sem_wait.c (engine E6) for R2/R5/R6, value scan for R1, guard (dominance) rules for R3/R4.',
        trusted_base=['clang 14 IR', 'nsa/lockeng.py', 'lock summary of nsync_mu (C01.R5)'])

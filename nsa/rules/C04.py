"""C04 - condition-variable wake-ups are never lost and never swallowed by a timeout.

R1  enqueue-before-release: in every cv wait the thread releases the mutex only after it has put its waiter on the cv queue and released the cv
    spinlock (typestate interpretation: the first transition that gives up the mutex happens with the "queued on a cv" flag set); nsync_wait_n calls the
    client's unlock only after the registration loop finished with every object registered (C11.R1).
R2  a timeout/cancellation is declared (the thread unlinks itself from the cv queue) only inside the cv spinlock region and under
    waiting != 0 and remove_count == the value saved at enqueue.
R3  coverage: every record woken by signal/broadcast has been unlinked from the cv queue first, and every wake store is followed by a semaphore post
    (shape); a transfer of waiters to the mutex queue happens only on mutex words with some lock held and sets MU_WAITING / clears MU_ALL_FALSE, so
    the holder's release must take the wake-up path (the transition obligations of C02.R3 restricted to the cv waker).
R4  CV_NON_EMPTY: when the cv spinlock is released with a queue known non-empty the bit is set; the bit is cleared only with the queue known empty.
R5  wake-ups deferred past the cv spinlock only for pooled (MUCV) records (= C13.R3; this is where the nsync_wait_n wake-up was swallowed before
    the repair 25942d3).
R6  nsync_wait_n derives the index it returns from the dequeue results (= C11.R5): a signal consumed between the last poll and the dequeue is reported as that object, not as a timeout.
That every started wait is covered by a wake-up under all interleavings is not decided."""
from .. import util, mumodel, ir as IR, wakeshape
from ..bounds import _guards, _norm_cmp
from ..report import Violation, AnalysisBroken
from . import C01

def check_cond_initialised(mod, rep, rid):
    """A record taken from nsync_waiter_new_ is usually a *reused* one (per-thread cache / free pool): whatever condition its last
    nsync_mu_wait left in cond.f is still there.  A cv waiter that a signaller transfers to the mutex queue is judged by the unlocker through
    cond.f - a stale false condition makes the unlocker skip it and the cv wake-up is swallowed.  So on every path from the allocation to the
    first enqueue, cond.f is written (directly, by a helper that writes it on all its paths, or by nsync_waiter_new_ itself on all its paths)."""
    from ..cfg import paths_avoiding
    memo = {}
    def is_cond_store(f, i):
        if i.op != 'store':
            return False
        ac = util.addr_class(mod, f, i.ops[1])
        return bool(ac['path']) and ac['path'][-1].endswith('wait_condition_s.f')
    def inits(name, depth=0):
        if name in memo:
            return memo[name]
        memo[name] = False
        f = mod.func(name)
        if f is None or f.decl or depth > 3:
            return False
        first = f.blocks[0].insts[0]
        bar = lambda i: is_cond_store(f, i) or (i.op == 'call' and i.callee and i.callee != name and inits(i.callee, depth + 1)) or util.is_assert_trap(i)
        if bar(first):
            memo[name] = True
        else:
            memo[name] = paths_avoiding(f, first, lambda i: i.op == 'ret', bar) is None
        return memo[name]
    emem = {}
    def enqueues(name, depth=0):
        """the list-insertion primitives, and helpers that reach them (an enqueue step extracted into a function of its own)"""
        if name.startswith('nsync_dll_make_'):
            return True
        if name in emem:
            return emem[name]
        emem[name] = False
        g = mod.func(name)
        if g is None or g.decl or depth > 2:
            return False
        emem[name] = any(i.op == 'call' and i.callee and i.callee != name and enqueues(i.callee, depth + 1) for i in g.real_insts())
        return emem[name]
    n = 0
    for f in mod.defined.values():
        if f.name == 'nsync_waiter_new_':
            continue
        for c in f.real_insts():
            if not (c.op == 'call' and c.callee == 'nsync_waiter_new_'):
                continue
            wset = util.derived_set(f, c.id)
            # the list primitives themselves, or a helper of the same file (an extracted step) that reaches them and is handed this record;
            # functions of other files (nsync_waiter_free_ puts the record on the free pool) are judged where they are defined
            enq = lambda i: i.op == 'call' and bool(i.callee) and i.callee != 'nsync_waiter_new_' and (i.callee.startswith('nsync_dll_make_') or
                            (enqueues(i.callee) and (mod.func(i.callee).file == f.file) and any(isinstance(o, str) and o in wset for o in i.ops)))
            if not any(enq(i) for i in f.real_insts()):
                continue
            n += 1
            ok = inits('nsync_waiter_new_')
            bad = None
            if not ok:
                bar = lambda i: is_cond_store(f, i) or (i.op == 'call' and i.callee and i.callee not in ('nsync_waiter_new_', f.name) and inits(i.callee))
                bad = paths_avoiding(f, c, enq, bar)
                ok = bad is None
            rep.instance(rid, 'record allocated at %s: cond.f written before the first enqueue on every path' % c.where()); rep.oblig(rid, ok)
            if not ok:
                rep.violate(Violation(rid, bad.where(), 'the waiter record obtained at %s can be enqueued here with cond.f never written since it was taken from the pool: a condition left by an earlier nsync_mu_wait of the same thread is judged by the unlocker after a cv-to-mutex transfer and the signalled waiter is skipped - its wake-up is swallowed' % c.where(), site='%s/stale-cond' % f.name))
    return n

def check_non_empty_record(K, eng, r, s, rep, rid):
    """one interpreted transition of a cv word judged against 'CV_NON_EMPTY tracks the queue' (shared with C11: the waitable hooks)"""
    NE = K['CV_NON_EMPTY']
    if r.wc.name == 'cv' and r.how == 'store':
        if getattr(r, 'queue_nonempty', False):
            # inductive use of the invariant (queue non-empty => CV_NON_EMPTY) at the acquisition: a word without the bit means the
            # queue was empty then, so it can only be non-empty now if this thread enqueued
            enq = r.flags.get(('flag', 'cv_enq')) == 1
            bad = next((n for e, n in r.pairs if not n & NE and ((e & NE) or enq)), None)
            rep.instance(rid, 'cv spinlock released with non-empty queue at %s [%s]' % (s.where(), r.entry)); rep.oblig(rid, bad is None)
            if bad is not None:
                rep.violate(Violation(rid, s.where(), 'the cv word is stored without CV_NON_EMPTY although the queue is non-empty: signal/broadcast skip the queue and the waiter is never woken [entry %s]' % r.entry, site='%s/non-empty-lost' % s.fn.name))
        if any((e & NE) and not (n & NE) for e, n in r.pairs):
            ok = r.queue == 0 or r.entry == 'nsync_cv_broadcast'
            rep.instance(rid, 'CV_NON_EMPTY cleared at %s queue=%r [%s]' % (s.where(), r.queue, r.entry)); rep.oblig(rid, ok)
            if not ok:
                rep.violate(Violation(rid, s.where(), 'CV_NON_EMPTY is cleared although the queue is not known to be empty [entry %s]' % r.entry, site='%s/non-empty-cleared' % s.fn.name))

def run(ctx, rep):
    mod = ctx.mod('C')
    K = ctx.probe
    eng, runs = mumodel.analyse(ctx)
    NE, CVSPIN = K['CV_NON_EMPTY'], K['CV_SPINLOCK']
    W, RL, WAITING, ALLF = K['MU_WLOCK'], K['MU_RLOCK'], K['MU_WAITING'], K['MU_ALL_FALSE']
    rep.functions.update(f for r in eng.records for f in r.stack)
    rep.rule('C04.R1', 'the mutex is released only after the waiter is on the cv queue')
    rep.rule('C04.R2', 'self-removal (timeout) only under the cv spinlock with waiting != 0 and unchanged remove_count')
    rep.rule('C04.R3', 'woken records are unlinked and posted; transfers only under a held mutex, setting MU_WAITING')
    rep.rule('C04.R4', 'CV_NON_EMPTY tracks the queue')
    rep.rule('C04.R5', 'deferred wake-ups only for pooled records')
    lk = mumodel.lk()
    RELEASERS = ('nsync_mu_unlock', 'nsync_mu_runlock', 'nsync_mu_unlock_without_wakeup', 'nsync_mu_unlock_slow_')
    for r in eng.records:
        if r.kind == 'call' and (r.entry or '').startswith('nsync_cv_wait') and r.callee in RELEASERS and r.ghost.get(lk, ('?', 0))[0] in ('W', 'R') \
                and r.args and r.args[0] == mumodel.MU and not any(x in RELEASERS for x in r.stack[:-0 or None] if x != r.callee and x in r.stack[:-1]):
            queued = r.ghost.get(('flag', 'cv_enq')) == 1
            spin = any(isinstance(k, tuple) and k[0] == 'lk' and k[1] == 'cv' and v[1] == 1 for k, v in r.ghost.items())
            ok = queued and not spin
            rep.instance('C04.R1', 'mutex released via %s at %s, queued on cv: %s [%s]' % (r.callee, r.where(), queued, r.entry)); rep.oblig('C04.R1', ok)
            if not ok:
                rep.violate(Violation('C04.R1', r.where(), 'the cv wait gives up the mutex before its waiter is on the cv queue (or while still holding the cv spinlock): a signaller that takes the mutex in between finds nobody to wake and the wake-up is lost [entry %s]' % r.entry,
                                      site='%s/release-before-enqueue' % r.inst.fn.name))
        if r.kind != 'trans' or not r.pairs:
            continue
        s = r.site(eng.wrappers)
        if r.wc.name == 'mu' and r.hold == '?' and r.effect[2] == 1 and r.entry in ('nsync_cv_signal', 'nsync_cv_broadcast'):
            bad = next(((e, n) for e, n in r.pairs if not ((e & W) or (e & 0xFFFFFFFF) // RL) or not (n & WAITING) or (n & ALLF)), None)
            rep.instance('C04.R3', 'transfer spinlock acquisition at %s [%s]' % (s.where(), r.entry)); rep.oblig('C04.R3', bad is None)
            if bad:
                rep.violate(Violation('C04.R3', s.where(), 'cv waiters can be moved to the mutex queue on word %s -> %s: %s [entry %s]' % (C01.bits(K, bad[0]), C01.bits(K, bad[1]),
                                      'nobody holds the mutex, so no release will ever wake them' if not ((bad[0] & W) or (bad[0] & 0xFFFFFFFF) // RL) else 'the word does not tell the holder to take the wake-up path', r.entry),
                                      site='%s/transfer-bits' % s.fn.name))
        # ... and a waker that gives the mutex spinlock back takes MU_WAITING down only if it knows the mutex queue to be empty: waiters that an
        # earlier signal transferred are reachable only through that bit (they are no longer on the cv)
        if r.wc.name == 'mu' and r.entry in ('nsync_cv_signal', 'nsync_cv_broadcast') and any((e & WAITING) and not (n & WAITING) for e, n in r.pairs):
            ok = r.spin == 1 and r.queue == 0
            rep.instance('C04.R3', 'MU_WAITING cleared by the waker at %s (spin=%s, queue known empty=%s) [%s]' % (s.where(), r.spin, r.queue == 0, r.entry)); rep.oblig('C04.R3', ok)
            if not ok:
                rep.violate(Violation('C04.R3', s.where(), 'the waker clears MU_WAITING although the mutex queue is not known to be empty: a cv waiter that an earlier signal moved to the mutex queue is forgotten - unlocks take the no-waiter fast path and later signals cannot reach it (it is no longer on the cv) [entry %s]' % r.entry,
                                      site='%s/waiting-cleared-by-waker' % s.fn.name))
        check_non_empty_record(K, eng, r, s, rep, 'C04.R4')
    # broadcast clears the bit after a drain loop: checked by shape (the loop unlinks every element)
    # ---- R2
    for fn in mod.defined.values():
        if not (fn.file or '').endswith('cv.c'):
            continue
        for c in fn.real_insts():
            if c.op == 'call' and c.callee == 'nsync_dll_remove_' and isinstance(c.ops[1], str):
                ac = util.addr_class(mod, fn, c.ops[1])
                # the thread's own waiter: &w->nw.q with w the result of nsync_waiter_new_ - in this function, or in the caller that handed
                # w to this static helper
                own = ac['kind'] == 'call' and ac['inst'].callee == 'nsync_waiter_new_'
                if not own and ac['kind'] == 'arg' and fn.internal:
                    k = int(ac['arg'][1:])
                    sites = [(g, i) for g in mod.defined.values() for i in g.real_insts() if i.op == 'call' and i.callee == fn.name and k < len(i.ops)]
                    def from_new(g, ref):
                        a2 = util.addr_class(mod, g, ref)
                        return a2['kind'] == 'call' and a2['inst'].callee == 'nsync_waiter_new_' and not a2['path']
                    own = bool(sites) and all(from_new(g, i.ops[k]) for g, i in sites)
                # (the dequeue slot of the cv waitable: int f (void *v, struct nsync_waiter_s *nw), removing the record it was handed)
                is_slot = [a_['ty'] for a_ in fn.args] == ['i8*', '%struct.nsync_waiter_s*'] and ac.get('arg') == 'a1'
                if not own and ac['kind'] == 'arg' and is_slot:
                    # the dequeue function of the cv waitable (nsync_wait_n's record, not a pooled waiter): "was I still queued?" is decided by
                    # reading nw->waiting INSIDE the cv spinlock - a read made before taking it can be overtaken by a signaller, whose wake-up is
                    # then consumed (the record is gone from the queue) but reported as "still queued", i.e. as a timeout
                    from ..cfg import cfg_of as _cfg
                    gs = [n for n in (_norm_cmp(fn, cc, s) for cc, s in _guards(fn, c)) if n]
                    wl = None
                    for p_, a_, b_ in gs:
                        la = fn.imap.get(a_) if isinstance(a_, str) else None
                        if p_ == 'ne' and la is not None and la.op == 'load' and IR.is_int(b_) and IR.ival(b_) == 0 \
                                and util.last_field(util.addr_class(mod, fn, la.ops[0])) == 'nsync_waiter_s.waiting':
                            wl = la
                    acq = [j for j in fn.real_insts() if j.op == 'call' and j.callee == 'nsync_spin_test_and_set_']
                    ok = wl is not None and any(_cfg(fn).inst_dominates(j, wl) for j in acq)
                    rep.instance('C04.R2', 'removal of a wait_n record at %s: guarded by waiting != 0 read under the cv spinlock: %s' % (c.where(), ok)); rep.oblig('C04.R2', ok)
                    if not ok:
                        rep.violate(Violation('C04.R2', c.where(), '%s removes the record from the cv queue %s: a signal that picked this record in between is consumed but the call reports the record as still queued - nsync_wait_n returns a timeout and no other waiter gets the signal'
                                              % (fn.name, 'without testing nw->waiting' if wl is None else 'on a test of nw->waiting made before the cv spinlock was taken'), site='%s/stale-dequeue-test' % fn.name))
                if own:
                    gs = [n for n in (_norm_cmp(fn, cc, s) for cc, s in _guards(fn, c)) if n]
                    def fld(ref):
                        l = fn.imap.get(ref) if isinstance(ref, str) else None
                        return util.last_field(util.addr_class(mod, fn, l.ops[0])) if l is not None and l.op == 'load' else None
                    waiting = any(p == 'ne' and fld(a) == 'nsync_waiter_s.waiting' and IR.is_int(b) and IR.ival(b) == 0 for p, a, b in gs)
                    rc = any(p == 'eq' and ('waiter.remove_count' in (fld(a), fld(b))) for p, a, b in gs)
                    recs = [r for r in eng.records if r.kind == 'call' and r.inst is c]
                    spin = all(any(isinstance(k, tuple) and k[0] == 'lk' and k[1] == 'cv' and v[1] == 1 for k, v in r.ghost.items()) for r in recs) and recs
                    ok = waiting and rc and bool(spin)
                    rep.instance('C04.R2', 'self-removal at %s: waiting!=0:%s remove_count unchanged:%s cv spinlock held:%s' % (c.where(), waiting, rc, bool(spin))); rep.oblig('C04.R2', ok)
                    if not ok:
                        rep.violate(Violation('C04.R2', c.where(), 'a timed-out cv waiter removes itself from the queue and reports a timeout without %s: a signal that already picked this waiter is swallowed (reported as a timeout) or the queue is corrupted'
                                              % ', '.join(x for x, v in (('re-checking waiting != 0', waiting), ('checking that remove_count is unchanged', rc), ('holding the cv spinlock', spin)) if not v),
                                              site='%s/timeout-declaration' % fn.name))
    from .C11 import check_waitn_unlock
    check_waitn_unlock(mod, rep, 'C04.R1')
    from .C11 import check_dequeue_result
    rep.rule('C04.R6', 'nsync_wait_n reports a consumed wake-up: its result is decided by the dequeue calls, not by an earlier poll')
    check_dequeue_result(mod, rep, 'C04.R6')
    wakeshape.check_wake_loops(mod, rep, 'C04.R3', only_files=('cv.c',))
    from . import C13 as _C13
    _C13.check_dequeuers(ctx, mod, eng, runs, rep, rids=('C04.R7', None))
    from . import C13
    # R5 reuses the C13 rule on a sub-report
    class Sub:
        pass
    n0 = len(rep.violations)
    C13_R3(mod, K, rep)
    rep.floor('C04.R1', 4)
    rep.floor('C04.R2', 1)
    rep.floor('C04.R3', 3)
    rep.rule('C04.R8', 'a pooled waiter record has cond.f written between its allocation and its first enqueue')
    check_cond_initialised(mod, rep, 'C04.R8')
    rep.floor('C04.R8', 2)
    rep.floor('C04.R4', 4)
    rep.assumptions += ['coverage of every started wait under all interleavings is not decided', 'the typestate of C01 stands for "holds the mutex"']
    return rep.finish(
        explanation='R1/R3/R4 judged on the transitions recorded by the abstract interpreter (mutex and cv words, queue cells under their spinlocks); R2 and R5 are guard (dominance) rules on cv.c; wake loops by shape.',
        trusted_base=['clang 14 IR', 'nsa/symex.py', 'dominators'])

def C13_R3(mod, K, rep):
    """deferred wake-ups only for pooled records (same rule as C13.R3, reported here as C04.R5)"""
    from .C13 import mucv_root, mucv_edges
    from ..cfg import cfg_of
    cvq = 'nsync_cv_s_.waiters'
    for fn in mod.defined.values():
        removes = []
        for i in fn.real_insts():
            if i.op == 'call' and i.callee == 'nsync_dll_remove_' and isinstance(i.ops[0], str) and i.ops[0] in fn.imap:
                l = fn.imap[i.ops[0]]
                if l.op == 'load' and util.last_field(util.addr_class(mod, fn, l.ops[0])) == cvq:
                    removes.append(i)
        if not removes:
            continue
        cfg = cfg_of(fn)
        um = util.users_map(fn)
        unlinked = set(util.strip_ptr(fn, r.ops[1]) for r in removes if isinstance(r.ops[1], str))
        for i in fn.real_insts():
            if i.op == 'call' and i.callee in ('nsync_dll_make_last_in_list_', 'nsync_dll_make_first_in_list_') and isinstance(i.ops[1], str):
                x = util.strip_ptr(fn, i.ops[1])
                if x not in unlinked:
                    continue
                if any(u.op == 'store' and util.last_field(util.addr_class(mod, fn, u.ops[1])) == cvq for u in um.get(i.id, [])):
                    continue
                ok = False
                for b in fn.blocks:
                    t = b.term
                    if t.op == 'br' and len(t.x['targets']) == 2:
                        for rx, tgt in mucv_edges(mod, fn, t, K):
                            if util.strip_ptr(fn, rx) == x and fn.bmap[tgt].preds == [b.id] and cfg.dominates(tgt, i.block.id):
                                ok = True
                rep.instance('C04.R5', '%s: deferred wake of %s at %s' % (fn.name, fn.name_of(x), i.where())); rep.oblig('C04.R5', ok)
                if not ok:
                    rep.violate(Violation('C04.R5', i.where(), '%s: a record that may belong to an nsync_wait_n caller is woken only after the cv spinlock is dropped; the caller can time out first, report a timeout although it was signalled, and discard the record' % fn.name,
                                          site='%s/deferred-nonpooled-wake' % fn.name))

"""C15 - every deadline value is handled: expired deadlines time out, none crash.

R1  (sign/range domain) the timespec handed to the kernel wait has tv_sec >= 0 and 0 <= tv_nsec < 1e9 on every path, for every deadline with a
    normalised nanosecond field - including deadlines before the epoch (a negative tv_sec makes FUTEX_WAIT_BITSET fail with EINVAL, which the
    errno ASSERT turns into a crash; this rule found the defect repaired by commit 1b39dc4) - or the pointer is NULL.
(The short-circuit of non-positive deadlines in nsync_wait_n is an optimisation: without it the call still registers, does not sleep and
 reports a timeout, so it is deliberately not required - selftest/benign/C15-waitn-no-shortcircuit.diff must stay silent.)
R3  no early timeout: ETIMEDOUT is defined only under result=-1, errno=ETIMEDOUT and deadline<=now (shared with C12.R3), and the
    kernel gets no timeout only for nsync_time_no_deadline (C12.R5).
R4  nsync_time_add keeps the nanosecond field normalised (the deadlines the library and its callers compute are valid kernel timeouts).
R6  the wait loops of the cv / mu waits reach the deadline-carrying sleep in their first iteration on every path (= C05.R8): no spinning on an
    expired deadline.
R7  ... and an expired deadline can be confirmed on every later iteration too: the remove_count snapshot is re-read before every enqueue that
    leads to another timed sleep (= C05.R9); with a stale snapshot the timeout is never confirmed and the call spins past its deadline.
R5  nsync_time_cmp orders every representable pair, extremes included (shared engine with C18).
Promptness in wall-clock terms is not decided."""
from .. import util, ir as IR, futexmodel
from ..bounds import _guards, _norm_cmp
from ..report import Violation, AnalysisBroken
from . import C12

def run(ctx, rep):
    mod = ctx.mod('C')
    K = ctx.probe
    rep.rule('C15.R1', 'kernel timeout: tv_sec >= 0 and 0 <= tv_nsec < 1e9 for every deadline (sign representatives), or NULL')
    rep.rule('C15.R3', 'ETIMEDOUT only when the clock agrees (no early timeout)')
    res = futexmodel.analyse(ctx)
    eng, exits = res['nsync_mu_semaphore_p_with_deadline']
    n = 0
    for r in eng.records:
        if r.kind == 'futex' and r.fkind == 'wait':
            n += 1
            if r.ts == 'NULL':
                rep.instance('C15.R1', 'wait without timeout at %s' % r.where())
                rep.oblig('C15.R1', True)
                continue
            bad = None
            if not isinstance(r.ts, dict) or not r.ts:
                bad = 'the timeout structure handed to the kernel could not be evaluated'
            else:
                for path, vals in r.ts.items():
                    fld = path[-1][1] if path and path[-1][0] == 'f' else (('tv_sec' if path and path[-1] == ('i', 0) else 'tv_nsec') if path else '?')
                    if vals is None:
                        bad = 'field %s of the kernel timeout is not a function of the deadline' % fld
                        break
                    for v in vals:
                        sv = v - (1 << 64) if v >> 63 else v
                        if 'sec' in fld and 'nsec' not in fld and sv < 0 and r.absolute:
                            bad = 'tv_sec = %d is handed to FUTEX_WAIT_BITSET for a deadline before the epoch (EINVAL -> ASSERT crash)' % sv
                        if 'nsec' in fld and not (0 <= sv < 1000000000):
                            bad = 'tv_nsec = %d out of range' % sv
            rep.instance('C15.R1', 'kernel timeout at %s: %s' % (r.where(), {str(p[-1][1] if p and p[-1][0] == 'f' else p): (sorted((v - (1 << 64) if v >> 63 else v) for v in vs) if vs else vs) for p, vs in (r.ts.items() if isinstance(r.ts, dict) else [])}))
            rep.oblig('C15.R1', bad is None)
            if bad:
                rep.violate(Violation('C15.R1', r.where(), bad, site='nsync_mu_semaphore_p_with_deadline/kernel-timeout-range'))
    if n == 0:
        raise AnalysisBroken('C15.R1: no kernel wait found in the timed P')
    C12.check_timeout_guards(mod, K, rep, 'C15.R3')
    # R4/R5: the deadline values the library itself computes and compares.  R1 assumes a normalised nanosecond field; deadlines are produced by
    # nsync_time_add (callers, once.c) and reach the kernel unchanged, so add must keep the field in [0,1e9) (tv_nsec = 1e9 is EINVAL ->
    # the errno ASSERT crashes).  Every timed operation orders its deadline against now / zero / another deadline with nsync_time_cmp, for
    # every representable pair including nsync_time_no_deadline and instants before the epoch: a comparison that wraps reports an expired
    # deadline as future (hang) or a future one as expired (early timeout).
    from . import C18
    rep.rule('C15.R4', 'nsync_time_add yields a normalised nanosecond field for normalised operands (deadlines it produces are valid kernel timeouts)')
    rep.rule('C15.R5', 'nsync_time_cmp orders every pair of representable times, including no_deadline and pre-epoch instants (no wrap)')
    C18.check(ctx, rep, {'addsub': 'C15.R4', 'cmp': 'C15.R5'}, addsub=(('nsync_time_add', 1),))
    # R6: an already expired deadline does not hang in the cv / mu wait loops (same rule as C05.R8)
    from .C05 import check_first_iteration_sleeps
    rep.rule('C15.R6', 'the first iteration of each wait loop reaches the deadline-carrying sleep: an expired deadline is applied at once, not spun on')
    check_first_iteration_sleeps(mod, rep, 'C15.R6')
    from .C05 import check_snapshot_fresh
    rep.rule('C15.R7', 'an expired deadline can be confirmed on every iteration: the remove_count snapshot is fresh at each enqueue before a timed sleep')
    check_snapshot_fresh(mod, rep, 'C15.R7')
    rep.floor('C15.R4', 2)
    rep.floor('C15.R5', 6)
    rep.assumptions += ['deadlines have a normalised nanosecond field (0 <= ns < 1e9), as the property states for nsync_time values',
                        'seconds are represented by sign classes {very negative, -2, -1, 0, 1, very large}: the code only compares them with 0',
                        'only the futex back-end built on this platform is analysed']
    return rep.finish(
        explanation='R1: the timed P is interpreted with the deadline as a symbolic (seconds, nanoseconds) pair over sign representatives; the timespec cells reaching the FUTEX_WAIT syscall are evaluated for every representative. R2/R3: guard (dominance) rules.',
        trusted_base=['clang 14 IR', 'nsa/symex.py', 'kernel rejects negative absolute timeouts (observed: EINVAL)'])

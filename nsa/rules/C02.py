"""C02 - a released mutex is always handed on; try-locks never block.

(a) nsync_mu_trylock / nsync_mu_rtrylock cannot block: their call tree consists of the atomic wrappers only and contains no loop (decided completely).
Safety conditions whose violation produces a lost wake-up (engine E1, all contexts):
R1  every transition by which a thread gives up its hold on the mutex without taking the spinlock (i.e. without entering the wake branch)
    succeeds only on words for which no wake-up is owed: not WAITING, or DESIG_WAKER set, or other readers remain, or (reader and ALL_FALSE);
    nsync_mu_unlock_without_wakeup may additionally rely on ALL_FALSE.
R2  designated-waker discipline: a thread that sets MU_DESIG_WAKER either wakes at least one waiter (semaphore V) or clears the bit when it releases the
    spinlock; a woken thread (lock_slow entered with clear = DESIG or after sleeping) never leaves the bit set in its acquire/enqueue transitions.
R3  MU_WAITING: cleared only by the spinlock holder and only when the queue is known empty; every spinlock acquisition made in order to enqueue
    (i.e. outside the waker function and the debug observers) sets MU_WAITING and clears MU_ALL_FALSE;
    (by induction the queue is non-empty only while MU_WAITING is set).
R4  wake completeness: in every function, an element moved to a local wake list reaches store(waiting, 0) and semaphore V in a loop that unlinks every element.
R5  sleeper protocol: every nsync_mu_semaphore_p* call is inside a loop whose continuation condition re-reads the wake flag / ready times.
R6  no blocking call while a spinlock bit is held.
R8  no plain (non-RMW) store to the mutex word by a thread without exclusive ownership: it erases concurrent releases / hint changes.
R9  the wake-up itself arrives: the semaphore post increments the count and issues FUTEX_WAKE on every path where a sleeper can be blocked, in
    the default and in the release (-DNDEBUG) configuration (= C12.R4).
R7  the thread that raised MU_LONG_WAIT clears it when it acquires, for every pre-state: otherwise a free mutex stays un-acquirable for threads that
    have not waited, which queue themselves with nobody left to wake them (= C14.R4)."""
from .. import util, mumodel, ir as IR
from ..cfg import cfg_of
from ..report import Violation, AnalysisBroken
from . import C01

BLOCKING = ('nsync_mu_semaphore_p', 'nsync_mu_semaphore_p_with_deadline', 'nsync_sem_wait_with_cancel_', 'nsync_mu_lock', 'nsync_mu_rlock',
            'nsync_mu_wait', 'nsync_mu_wait_with_deadline', 'nsync_cv_wait', 'nsync_cv_wait_with_deadline', 'nsync_cv_wait_with_deadline_generic',
            'nsync_note_wait', 'nsync_counter_wait', 'nsync_wait_n', 'nsync_time_sleep')
SEM_P = ('nsync_mu_semaphore_p', 'nsync_mu_semaphore_p_with_deadline', 'nsync_sem_wait_with_cancel_')

def run(ctx, rep):
    mod = ctx.mod('C')
    K = ctx.probe
    eng, runs = mumodel.analyse(ctx)
    muc = eng.muc
    W, SPIN, WAITING, DESIG, ALLF, RL = K['MU_WLOCK'], K['MU_SPINLOCK'], K['MU_WAITING'], K['MU_DESIG_WAKER'], K['MU_ALL_FALSE'], K['MU_RLOCK']
    rep.functions.update(f for r in eng.records for f in r.stack)
    rep.rule('C02.a', 'try-locks cannot block: the call tree is loop-free library code ending in atomic operations; no external, blocking or indirect call')
    rep.rule('C02.R1', 'a hold is given up without entering the wake branch only on words that owe no wake-up')
    rep.rule('C02.R2', 'designated-waker bit: set only together with a wake-up or cleared at spinlock release; woken threads clear it')
    rep.rule('C02.R3', 'MU_WAITING cleared only under the spinlock with an empty queue; enqueuing spinlock acquisitions set WAITING and clear ALL_FALSE')
    rep.rule('C02.R4', 'wake lists are drained: every element gets waiting=0 and a semaphore V')
    rep.rule('C02.R5', 'every semaphore P sits in a loop that re-reads the wake condition')
    rep.rule('C02.R6', 'no blocking call while a spinlock bit is held')
    # ---- (a)
    cg = util.callgraph(mod)
    wr = set(util.cas_wrappers(mod))
    for name in ('nsync_mu_trylock', 'nsync_mu_rtrylock'):
        fn = mod.func(name)
        if fn is None or fn.decl:
            raise AnalysisBroken('C02: %s not found' % name)
        tree = util.reach(cg, [name])
        bad = None
        for f in sorted(tree):
            g = mod.func(f)
            if g is None or g.decl:
                if not f.startswith('llvm.') and not f.startswith('Annotate'):
                    bad = 'calls %s' % f
                continue
            # any defined library helper is allowed in the call tree: every function reached is itself required (below) to be loop-free and
            # free of indirect calls, and every external callee is rejected above - so the whole tree is a finite, straight-line computation
            if cfg_of(g).back_edges():
                bad = 'contains a loop (in %s)' % f
            for i in g.real_insts():
                if i.op == 'call' and i.callee is None:
                    bad = 'makes an indirect call'
        rep.instance('C02.a', '%s: call tree %s' % (name, sorted(tree)))
        rep.oblig('C02.a', bad is None)
        if bad:
            rep.violate(Violation('C02.a', '%s:%d in %s' % (IR.rel(fn.file), fn.line, name), '%s can block or spin: it %s' % (name, bad), site='%s/nonblocking' % name))
    # roles
    waker_fns = set()
    for r in eng.records:
        if r.kind == 'trans' and r.wc.name == 'mu' and r.pairs and any((n & DESIG) and not (e & DESIG) for e, n in r.pairs):
            waker_fns.add(r.site(eng.wrappers).fn.name)
    # ---- R1, R2, R3 over transitions
    for r in eng.records:
        if r.kind != 'trans' or r.wc.name != 'mu' or not r.pairs:
            continue
        s = r.site(eng.wrappers)
        dW, dc, ds = r.effect
        tag = '%s [%s]' % (s.where(), r.entry)
        # R1: release of the caller's hold, not entering the wake branch (spinlock not taken, not held)
        releases = (dW == -1 and dc == 0) or (dW == 0 and dc == -1)
        if releases and ds == 0 and r.spin == 0 and r.hold in ('W', 'R'):
            nowake_entry = 'unlock_without_wakeup' in (r.entry or '')
            bad = None
            for e, n in r.pairs:
                cnt = (e & 0xFFFFFFFF) // RL
                ok = (not e & WAITING) or (e & DESIG) or (r.hold == 'R' and cnt > 1) or (r.hold == 'R' and e & ALLF) or (nowake_entry and e & ALLF)
                rep.oblig('C02.R1', bool(ok))
                if not ok and bad is None:
                    bad = e
            rep.instance('C02.R1', tag + ' release by %s, %d pre-states' % (r.hold, len(r.pairs)))
            if bad is not None:
                rep.violate(Violation('C02.R1', s.where(),
                    'the %s lock can be released on word %s (waiters queued, no designated waker) without entering the wake-up path: the queued thread is never woken [entry %s]'
                    % ('write' if r.hold == 'W' else 'read', C01.bits(K, bad), r.entry), site='%s/release-without-wake' % s.fn.name))
        # R2: woken threads clear DESIG
        if s.fn.name == eng.LOCK_SLOW or eng.LOCK_SLOW in r.stack:
            woken = r.flags.get(('flag', 'ls_clear'), 0) == DESIG or any(k[:2] == ('flag', 'slept') and k[2] == eng.LOCK_SLOW for k in r.flags)
            if woken and (dW == 1 or dc == 1 or ds == 1):
                bad = next((n for e, n in r.pairs if n & DESIG), None)
                rep.instance('C02.R2', tag + ' transition of a woken thread')
                rep.oblig('C02.R2', bad is None)
                if bad is not None:
                    rep.violate(Violation('C02.R2', s.where(),
                        'a thread that was woken from the mutex queue acquires or re-queues leaving MU_DESIG_WAKER set (%s): later unlocks believe a designated waker exists and wake nobody [entry %s]' % (C01.bits(K, bad), r.entry),
                        site='%s/desig-not-cleared' % s.fn.name))
        # R3: WAITING cleared
        clears = [(e, n) for e, n in r.pairs if (e & WAITING) and not (n & WAITING)]
        if clears:
            ok = r.spin == 1 and r.queue == 0
            rep.instance('C02.R3', tag + ' clears MU_WAITING (spin=%s, queue=%r)' % (r.spin, r.queue))
            rep.oblig('C02.R3', ok)
            if not ok:
                rep.violate(Violation('C02.R3', s.where(),
                    'MU_WAITING is cleared %s: queued threads are forgotten and later unlocks take the no-waiter fast path [entry %s]'
                    % ('by a thread that does not hold the queue spinlock' if r.spin != 1 else 'although the queue is not known to be empty', r.entry),
                    site='%s/waiting-cleared' % s.fn.name))
        # R3: enqueuing spinlock acquisitions
        if ds == 1 and dW != 1 and s.fn.name not in waker_fns and 'debug' not in (r.entry or '') and not (set(r.stack) & waker_fns):
            bad = next(((e, n) for e, n in r.pairs if not (n & WAITING) or (n & ALLF)), None)
            rep.instance('C02.R3', tag + ' spinlock acquisition for enqueue')
            rep.oblig('C02.R3', bad is None)
            if bad:
                rep.violate(Violation('C02.R3', s.where(),
                    'the transition that takes the queue spinlock in order to enqueue a waiter yields %s: it must set MU_WAITING and clear MU_ALL_FALSE, otherwise a later release skips the wake-up [entry %s]'
                    % (C01.bits(K, bad[1]), r.entry), site='%s/enqueue-bits' % s.fn.name))
    # R2: debt at exit
    for e, exits in runs:
        for x in exits:
            owes = [k for k in x.ghost if isinstance(k, tuple) and k[:2] == ('flag', 'owes_desig')]
            rep.instance('C02.R2', '%s exit: designated-waker debt %s' % (e['label'], 'open' if owes else 'none'))
            rep.oblig('C02.R2', not owes)
            if owes:
                fn = mod.func(e['fn'])
                rep.violate(Violation('C02.R2', '%s:%d in %s' % (IR.rel(fn.file), fn.line, fn.name),
                    '%s can return having set MU_DESIG_WAKER without waking any waiter and without clearing the bit: every later unlock defers to a waker that does not exist' % e['label'],
                    site='%s/desig-debt' % e['fn']))
    # ---- R6 (engine): blocking call with a spinlock held
    for r in eng.records:
        if r.kind == 'call' and r.callee in BLOCKING:
            held = [(k, v) for k, v in r.ghost.items() if isinstance(k, tuple) and k[0] == 'lk' and v[1] == 1]
            rep.instance('C02.R6', 'call %s at %s [%s]' % (r.callee, r.where(), r.entry))
            rep.oblig('C02.R6', not held)
            if held:
                rep.violate(Violation('C02.R6', r.where(), 'blocking call %s while holding the %s spinlock [entry %s]' % (r.callee, held[0][0][1], r.entry),
                                      site='%s/blocking-under-spinlock' % r.inst.fn.name))
    # ---- R4 / R5 structural
    from .. import wakeshape
    wakeshape.check_wake_loops(mod, rep, 'C02.R4')
    wakeshape.check_sleeper_loops(mod, rep, 'C02.R5', SEM_P)
    # R8: every change of the mutex word by a thread that does not own it exclusively (write lock + spinlock) is an RMW.  A plain store
    # by a thread that holds only the spinlock (or nothing) writes back a value read earlier and erases what others changed meanwhile:
    # a reader's release (the count stays one too high - the last real release sees "another reader remains" and wakes nobody), a set
    # MU_WAITING, a cleared MU_DESIG_WAKER.  (Same typestate fact as C01.R3, judged here for the lost wake-up.)
    rep.rule('C02.R8', 'no plain store to the mutex word by a thread without exclusive ownership (an erased release or hint loses a wake-up)')
    seen8 = set()
    for r in eng.records:
        if r.kind == 'trans' and r.wc.name == 'mu' and r.how == 'store':
            s8 = r.site(eng.wrappers)
            ok = r.hold == 'W' and r.spin == 1
            key8 = (s8.fn.name, s8.id, ok)
            if key8 in seen8:
                continue
            seen8.add(key8)
            rep.instance('C02.R8', 'store to the mutex word at %s in typestate hold=%s spinlock=%s [%s]' % (s8.where(), r.hold, r.spin, r.entry)); rep.oblig('C02.R8', ok)
            if not ok:
                rep.violate(Violation('C02.R8', s8.where(), 'plain store to the mutex word by a thread that holds only %s: a release or hint-bit change made concurrently by another thread is overwritten, so e.g. a departed reader stays counted and the last real release wakes nobody [entry %s]'
                                      % ('the spinlock' if r.spin == 1 else 'hold=%s' % r.hold, r.entry), site='%s/plain-store-lost-update' % s8.fn.name))
    # R7: a hint bit that makes a free mutex un-acquirable for fresh threads must not outlive the thread that raised it (shared with C14.R4)
    from .C14 import check_long_wait_owner
    check_long_wait_owner(eng, K, rep, 'C02.R7')
    from . import C12
    rep.rule('C02.R9', 'the semaphore post behind every wake-up increments and issues FUTEX_WAKE (default and NDEBUG configuration)')
    C12.check_v_wakes(ctx, rep, 'C02.R9')
    rep.floor('C02.R1', 8)
    rep.floor('C02.R2', 10)
    rep.floor('C02.R3', 6)
    rep.floor('C02.R4', 3)
    rep.floor('C02.R5', 3)
    rep.floor('C02.R6', 5)
    rep.assumptions += ['liveness (eventual return of lock/rlock under every fair schedule) is NOT decided; R1-R6 are the safety conditions whose violation loses a wake-up',
                        'ring invariant of dll.c (C17) for list nullness']
    return rep.finish(
        explanation='(a) decided completely on the call tree of the try-locks. R1-R3, R6: judged on every transition/call recorded by the abstract interpreter in all contexts. R4, R5: CFG shape rules (drain loops, sleeper loops).',
        trusted_base=['clang 14 IR', 'nsa/symex.py', 'nsa/wakeshape.py', 'dominators / natural loops'])

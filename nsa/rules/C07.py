"""C07 - nsync_run_once runs its function exactly once and nobody returns early.

The once word is a monotone automaton 0 -> running -> done (today 0 -> 1 -> 2).  The automaton is read off the code, not frozen: the word's
universe is every constant the file stores to, CASes into or compares with the word; "running" values are the targets of its CASes, "done"
values the ones written by plain stores.  Decided by interpreting the four entry points (and the shared implementation inlined into them):
R1  who-may-write: the only writes to *once are a CAS whose every success goes from 0 to a running value (not 0, not a done value) and a store
    of a done value (not 0, not a running value) by the thread that won such a CAS.
R2  the user function (f / farg) is called only by the thread that won the CAS, before its store; the store follows the call on every path.
R3  at every return, the caller's last observation of *once is an acquire load that can only have been a done value, or its own store of one.
R4  a call that finds the word already done performs no call at all (it cannot block).
R5  sibling: do_once in per_thread_waiter.c follows the same automaton (R1-R3).
Because the automaton is monotone, R1-R3 imply exactly-once and nobody-early for every interleaving; that blocked losers are eventually
released (liveness of the cv/spin wait) is not decided."""
from .. import util, ir as IR
from ..wordeng import SmallWordEngine
from ..symex import Ptr, TOP, is_expr, eval_tree, Record
from ..report import Violation, AnalysisBroken

ONCE = Ptr('arg:once', ())

class OnceEngine(SmallWordEngine):
    def word_transition(self, st, rec):
        if rec.how == 'cas' and rec.pairs and all(e == 0 and n != 0 for e, n in rec.pairs):
            st.ghost[('flag', 'claimed')] = 1
        if rec.how == 'store':
            vals = frozenset(n for e, n in rec.pairs) if rec.pairs else None
            st.ghost[('flag', 'stored_done')] = vals if vals is not None else 0
            st.ghost[('last_obs',)] = 'own-store'
    def exec_load(self, st, f, inst):
        r = SmallWordEngine.exec_load(self, st, f, inst)
        v = f.regs.get(inst.id)
        if inst.ord != 'na' and is_expr(v) and v[2] == ('s',):
            p = self.val(f, inst.ops[0])
            if self.word_of(p)[0] is not None:
                st.ghost[('last_obs',)] = v
                st.ghost[('last_obs_ord',)] = inst.ord
                st.ghost[('last_obs_at',)] = inst.where()
        return r

def run(ctx, rep):
    mod = ctx.mod('C')
    rep.rule('C07.R1', 'writes to the once word: only CAS 0 -> running and store of done by the CAS winner (today 0->1, 2)')
    rep.rule('C07.R2', 'the user function is called only between winning the CAS and the store of the done value')
    rep.rule('C07.R3', 'at every return the last observation of the word is an acquire load that saw a done value, or the own store of it')
    rep.rule('C07.R4', 'the already-done path performs no call')
    rep.rule('C07.R5', 'sibling do_once (per-thread waiter key) follows the same automaton')
    entries = []
    F, FARG = Ptr('client:f', ()), Ptr('client:farg', ())
    for name, args in (('nsync_run_once', [ONCE, F]), ('nsync_run_once_arg', [ONCE, FARG, TOP]),
                       ('nsync_run_once_spin', [ONCE, F]), ('nsync_run_once_arg_spin', [ONCE, FARG, TOP])):
        fn = mod.func(name)
        if fn is None or fn.decl:
            raise AnalysisBroken('C07: %s not found' % name)
        entries.append((name, args, (ONCE.base,), ('once.c',), 'C07'))
    sib = [f for f in mod.defined.values() if (f.file or '').endswith('per_thread_waiter.c') and len(f.args) >= 1 and
           any(i.op == 'store' and i.ord != 'na' and IR.is_int(i.ops[0]) and IR.ival(i.ops[0]) != 0 for i in f.real_insts())]
    def universe(files):
        """0 plus every small constant the file's functions (and the CAS wrappers' callers) store to, CAS into or compare with an atomic word"""
        U = {0}
        for f in mod.defined.values():
            if not any((f.file or '').endswith(x) for x in files):
                continue
            for i in f.real_insts():
                cands = []
                if i.op == 'store' and i.ord != 'na':
                    cands = i.ops[:1]
                elif i.op == 'cmpxchg':
                    cands = i.ops[1:3]
                elif i.op == 'icmp':
                    cands = i.ops
                elif i.op == 'call' and i.callee in wrappers_:
                    cands = i.ops[1:]
                elif i.op == 'phi':
                    cands = [v for v, pb in i.ops]
                for o in cands:
                    if IR.is_int(o) and 0 <= IR.ival(o) < 64:
                        U.add(IR.ival(o))
        return tuple(sorted(U))
    wrappers_ = util.cas_wrappers(mod)
    for f in sib:
        entries.append((f.name, [Ptr('arg:once', ())] + [Ptr('client:dest', ())] * (len(f.args) - 1), (ONCE.base,), ('per_thread_waiter.c',), 'C07.R5'))
    for name, args, bases, files, tag in entries:
        U = universe(files)
        if len(U) > 8:
            raise AnalysisBroken('C07: the once word of %s combines with %d different constants' % (name, len(U)))
        eng = OnceEngine(mod, 'once', U, bases=bases, files=files)
        exits = eng.run(name, args, nn=set(a for a in args if isinstance(a, Ptr)))
        RUN = set(n for r in eng.records if r.kind == 'trans' and r.how == 'cas' for e, n in (r.pairs or []))
        DONE = set(n for r in eng.records if r.kind == 'trans' and r.how == 'store' for e, n in (r.pairs or []))
        rep.instance(('C07.R5' if tag == 'C07.R5' else 'C07.R1'), '%s: once-word universe %s, running values %s, done values %s' % (name, list(U), sorted(RUN), sorted(DONE)))
        rep.functions.update(f for r in eng.records for f in r.stack)
        sib_mode = tag == 'C07.R5'
        r1, r2, r3, r4 = (tag,) * 4 if sib_mode else ('C07.R1', 'C07.R2', 'C07.R3', 'C07.R4')
        for r in eng.records:
            if r.kind == 'trans':
                s = r.site(eng.wrappers)
                rep.instance(r1, '%s %s %s pairs=%s [%s]' % (s.where(), r.how, r.ord, sorted(set(r.pairs or [])), name))
                if r.how == 'cas':
                    ok = r.pairs is not None and all(e == 0 and n != 0 and n not in DONE for e, n in r.pairs)
                    msg = 'a CAS on the once word can succeed with a transition other than 0 -> running (a value that is neither 0 nor a completion value %s): %s' % (sorted(DONE), sorted(set(r.pairs or [])))
                else:
                    ok = r.pairs is not None and all(n != 0 and n not in RUN for e, n in r.pairs) and r.flags.get(('flag', 'claimed')) == 1
                    msg = 'the once word is stored to by a thread that did not win the claim, or with a value that does not mean "done" (0 or a running value %s): %s' % (sorted(RUN), sorted(set(n for e, n in (r.pairs or []))))
                rep.oblig(r1, ok)
                if not ok:
                    rep.violate(Violation(r1, s.where(), msg + ' [entry %s]' % name, site='%s/once-write' % s.fn.name))
            elif r.kind == 'icall':
                claimed = r.ghost.get(('flag', 'claimed')) == 1
                stored = ('flag', 'stored_done') in r.ghost
                ok = claimed and not stored
                rep.instance(r2, 'user function called at %s, claimed=%s, done-stored=%s [%s]' % (r.where(), claimed, stored, name))
                rep.oblig(r2, ok)
                if not ok:
                    rep.violate(Violation(r2, r.where(), ('the once-function can be called by a thread that has not won the 0 -> 1 claim (it may run twice, or concurrently)' if not claimed
                                                           else 'the once-function is called after completion was already published') + ' [entry %s]' % name,
                                          site='%s/once-call' % r.inst.fn.name))
            elif r.kind == 'call' and not getattr(r, 'inlined', False) and sib_mode and r.callee == 'pthread_key_create':
                claimed = r.ghost.get(('flag', 'claimed')) == 1 and ('flag', 'stored_done') not in r.ghost
                rep.instance(r2, 'one-time initialisation %s at %s' % (r.callee, r.where()))
                rep.oblig(r2, claimed)
                if not claimed:
                    rep.violate(Violation(r2, r.where(), 'the one-time initialisation is reachable without winning the claim', site='%s/once-call' % r.inst.fn.name))
        # the store of 2 must follow every user call: a winner that returns without storing 2 blocks everyone - and R3 catches it
        for x in exits:
            lo = x.ghost.get(('last_obs',))
            ok = False
            why = 'returns without having observed the word'
            if lo == 'own-store':
                sd = x.ghost.get(('flag', 'stored_done'))
                ok = isinstance(sd, frozenset) and bool(sd) and sd <= DONE and not (sd & (RUN | {0}))
                why = 'its own store was not a completion value'
            elif is_expr(lo):
                vals = x.S.get(lo[1], frozenset())
                o = x.ghost.get(('last_obs_ord',))
                good = frozenset(DONE - RUN - {0})
                ok = bool(vals) and vals <= good and o in ('acquire', 'seq_cst', 'acq_rel')
                why = ('the last load of the once word before the return (%s) may have seen %s (done means %s)' % (x.ghost.get(('last_obs_at',)), sorted(vals), sorted(good))) if not (vals and vals <= good) \
                    else 'the load that saw the done value (%s) is %s, not acquire' % (x.ghost.get(('last_obs_at',)), o)
            rep.instance(r3, '%s: return with last observation %s' % (name, 'own store of the done value' if lo == 'own-store' else (sorted(x.S.get(lo[1], ())) if is_expr(lo) else lo)))
            rep.oblig(r3, ok)
            if not ok:
                fn = mod.func(name)
                rep.violate(Violation(r3, '%s:%d in %s' % (IR.rel(fn.file), fn.line, name), '%s can return before the once-function has completed: %s' % (name, why),
                                      site='%s/early-return' % name))
        # R4: done path: exits whose only observation is the first load == 2 and no call record on that path.  Decided on the CFG of the entry:
        if not sib_mode:
            fn = mod.func(name)
            first = next((i for i in fn.real_insts() if i.op == 'load' and i.ord != 'na'), None)
            ok = False
            if first is not None:
                um = util.users_map(fn)
                for c in um.get(first.id, []):
                    if c.op == 'icmp' and c.x['pred'] in ('eq', 'ne') and any(IR.is_int(o) and IR.ival(o) in DONE for o in c.ops):
                        for b in um.get(c.id, []):
                            if b.op == 'br' and len(b.x['targets']) == 2:
                                done = b.x['targets'][1] if c.x['pred'] == 'ne' else b.x['targets'][0]
                                from ..cfg import cfg_of
                                region = cfg_of(fn).reachable_from([done], avoid=frozenset([t for t in b.x['targets'] if t != done]))
                                calls = [i for bid in region for i in fn.bmap[bid].insts if i.op == 'call' and not (i.callee or 'x').startswith(('llvm.', 'Annotate'))]
                                ok = not calls
            rep.instance(r4, '%s: path taken when the first load sees the done value' % name)
            rep.oblig(r4, ok)
            if not ok:
                rep.violate(Violation(r4, '%s:%d in %s' % (IR.rel(fn.file), fn.line, name), '%s makes a call (may block) even when the once word already holds the done value' % name, site='%s/done-path-call' % name))
    rep.rule('C07.R6', 'the API entry points are functions for clients of the public headers (no macro interposes its own fast path or evaluates arguments twice)')
    util.check_api_not_macros(ctx, rep, 'C07.R6', ('nsync_run_once',))
    rep.floor('C07.R1', 8)
    rep.floor('C07.R2', 4)
    rep.floor('C07.R3', 8)
    rep.floor('C07.R4', 4)
    rep.assumptions += ['monotone-automaton argument: R1-R3 per thread imply exactly-once and nobody-early for every interleaving',
                        'eventual release of blocked losers (cv timing / spinning) is not decided']
    return rep.finish(
        explanation='Abstract interpretation of the once word over the constants its file uses (today {0,1,2}) through the four entry points and the sibling do_once: every write, every call of the user function and every return is judged against the 0 -> running -> done automaton read off the code.',
        trusted_base=['clang 14 IR', 'nsa/symex.py', 'monotone-automaton meta-argument'])

"""C12 - the per-thread semaphore never loses a post.

Protocol obligations which, together with the kernel's atomic compare-and-block (assumed), imply the property:
R1  the value handed to FUTEX_WAIT as "expected" is 0 on that path (the count just observed), so a post between the load and the wait makes the wait return at once;
R2  P returns success only through a successful CAS count -> count-1 with count >= 1, and never returns a failure (ETIMEDOUT) on a path that
    performed that CAS (a consumed post is not reported as a timeout); the count is otherwise written only by V's CAS +1 and by init;
R3  the timed P defines ETIMEDOUT only under (wait result = -1 and errno = ETIMEDOUT and deadline <= now), and the comparison that decides
    "deadline <= now" is exact for every pair of times (= C18.R2);
R4  V increments by CAS and then issues FUTEX_WAKE on every path on which the count it found may have been 0 (a sleeper can be blocked only then);
R6  a failed CAS on the count is retried only with a freshly loaded expected value: every path from the CAS back to itself passes an atomic load
    of the count (with a stale value the retry fails for ever once the count has moved on - P spins although posts are pending).
R5  the timeout pointer is NULL exactly on the path where the deadline compared equal to nsync_time_no_deadline."""
from .. import util, ir as IR, futexmodel
from ..bounds import _guards, _norm_cmp
from ..cfg import cfg_of
from ..report import Violation, AnalysisBroken

def _where_fn(fn):
    return '%s:%d in %s' % (IR.rel(fn.file), fn.line, fn.name)

def _timed_p_family(mod):
    """the timed P and the static helpers it (transitively) calls that live in the same file, each with the ids of the parameter pair that
    carries the caller's abs_deadline (seconds, nanoseconds), traced from the public function's own parameters through the call sites"""
    root = mod.func('nsync_mu_semaphore_p_with_deadline')
    if root is None or root.decl:
        raise AnalysisBroken('nsync_mu_semaphore_p_with_deadline not found')
    fam = {root.name: ('a1', 'a2')}
    work = [root]
    while work:
        g = work.pop()
        dl = fam[g.name]
        for i in g.real_insts():
            if i.op == 'call' and i.callee and i.callee not in fam:
                h = mod.func(i.callee)
                if h is None or h.decl or (h.file or '') != (g.file or ''):
                    continue
                pair = None
                for k in range(len(i.ops) - 1):
                    if dl and i.ops[k] == dl[0] and i.ops[k + 1] == dl[1]:
                        pair = ('a%d' % k, 'a%d' % (k + 1))
                fam[h.name] = pair
                work.append(h)
    return fam

def check_timeout_guards(mod, K, rep, rid):
    """R3 on the CFG of the timed P and of the helpers it is split into"""
    ET = K['ETIMEDOUT']
    fam = _timed_p_family(mod)
    found = 0
    # everything that can reach the return of the timed P: constants other than 0 and computed values are result definitions too
    leaves = _result_leaves(mod, mod.func('nsync_mu_semaphore_p_with_deadline'), fam)
    extra = {}
    for g, d, at, v in leaves:
        if v == 0:
            continue
        extra.setdefault(g.name, []).append((d, at, v))
    for fname, dl in sorted(fam.items()):
        found += _check_timeout_guards_in(mod, mod.func(fname), dl, ET, rep, rid, extra.get(fname, ()))
    if not found:
        raise AnalysisBroken('%s: no definition of ETIMEDOUT found in the timed P' % rid)

def _result_leaves(mod, fn, fam, seen=None):
    """values that can reach the return of fn, traced back through phis, selects, casts and calls of same-file helpers: a list of
    (function, defining instruction, terminator/instruction at which the choice is made, value) with value an int or an SSA name"""
    out = []
    seen = set() if seen is None else seen
    def walk(g, ref, at, via):
        if IR.is_int(ref):
            out.append((g, via, at, IR.uval(ref) & 0xffffffff))
            return
        i = g.imap.get(ref) if isinstance(ref, str) else None
        if i is None:
            out.append((g, via, at, ref))
            return
        key = (g.name, i.id, id(at))
        if key in seen:
            return
        seen.add(key)
        if i.op == 'phi':
            for v, pb in i.ops:
                walk(g, v, g.bmap[pb].term, i)
        elif i.op == 'select':
            for v in i.ops[1:]:
                walk(g, v, None, i)
        elif i.op in ('zext', 'sext', 'trunc', 'freeze'):
            walk(g, i.ops[0], at, via)
        elif i.op == 'call' and i.callee in fam and i.callee != g.name:
            h = mod.func(i.callee)
            for r in h.real_insts():
                if r.op == 'ret' and r.ops:
                    walk(h, r.ops[0], r, r)
        else:
            out.append((g, via, at, ref))
    for r in fn.real_insts():
        if r.op == 'ret' and r.ops:
            walk(fn, r.ops[0], r, r)
    return out

def _check_timeout_guards_in(mod, fn, dl, ET, rep, rid, extra=()):
    defs = []
    for i in fn.real_insts():
        if i.op == 'phi':
            for v, pb in i.ops:
                if IR.is_int(v) and IR.uval(v) == ET:
                    defs.append((i, fn.bmap[pb].term, ET))
        elif i.op == 'ret' and i.ops and IR.is_int(i.ops[0]) and IR.uval(i.ops[0]) == ET:
            defs.append((i, i, ET))
        elif i.op == 'select' and any(IR.is_int(o) and IR.uval(o) == ET for o in i.ops[1:]):
            defs.append((i, None, ET))
    have = set((id(d), id(at)) for d, at, v in defs)
    for d, at, v in extra:
        if (id(d), id(at)) not in have:
            have.add((id(d), id(at)))
            defs.append((d, at, v))
    def is_errno(ref):
        x = fn.imap.get(ref) if isinstance(ref, str) else None
        if x is None or x.op != 'load':
            return False
        src = fn.imap.get(x.ops[0]) if isinstance(x.ops[0], str) else None
        return src is not None and src.op == 'call' and src.callee == '__errno_location'
    def _w(d, at):
        # a phi carries no line: report the branch that selects the value
        return at.where() if (at is not None and (not d.loc or not d.loc[1])) else d.where()
    for d, at, val in defs:
        ok_res = ok_errno = ok_clock = False
        if isinstance(val, int) and val != ET:
            rep.instance(rid, 'result %d defined at %s' % (val, d.where())); rep.oblig(rid, False)
            rep.violate(Violation(rid, _w(d, at), 'the timed wait can return %d, which is neither 0 nor ETIMEDOUT: callers take every non-zero result for an expired deadline' % val,
                                  site='nsync_mu_semaphore_p_with_deadline/foreign-result'))
            continue
        if at is not None:
            for c, sense in _guards(fn, at):
                n = _norm_cmp(fn, c, sense)
                if not n:
                    continue
                pred, a, b = n
                ai = fn.imap.get(a) if isinstance(a, str) else None
                if pred == 'eq' and IR.is_int(b) and IR.ival(b) == -1 and ai is not None and ai.op == 'call':
                    ok_res = True
                if pred == 'eq' and IR.is_int(b) and IR.uval(b) == ET and is_errno(a) and (isinstance(val, int) or a == val):
                    ok_errno = True
                if ai is not None and ai.op == 'call' and ai.callee == 'nsync_time_cmp' and IR.is_int(b) and IR.ival(b) == 0:
                    # cmp(deadline, now) <= 0   or   cmp(now, deadline) >= 0
                    ops = ai.ops
                    def is_now(r):
                        x = fn.imap.get(r) if isinstance(r, str) else None
                        while x is not None and x.op == 'extractvalue':
                            x = fn.imap.get(x.ops[0])
                        return x is not None and x.op == 'call' and x.callee == 'nsync_time_now'
                    first_is_deadline = dl is not None and ops[0] == dl[0] and ops[1] == dl[1] and is_now(ops[2])
                    first_is_now = dl is not None and is_now(ops[0]) and ops[2] == dl[0] and ops[3] == dl[1]
                    if (first_is_deadline and pred in ('sle', 'slt')) or (first_is_now and pred in ('sge', 'sgt')):
                        ok_clock = True
        ok = ok_res and ok_errno and ok_clock
        what = 'ETIMEDOUT' if isinstance(val, int) else 'a computed result (%s)' % fn.name_of(val)
        rep.instance(rid, '%s defined at %s: guards result==-1:%s errno==ETIMEDOUT:%s deadline<=now:%s' % (what, d.where(), ok_res, ok_errno, ok_clock))
        rep.oblig(rid, ok)
        if not ok:
            missing = [n for n, v in (('wait result == -1', ok_res), ('errno == ETIMEDOUT', ok_errno), ('deadline <= now (clock re-check)', ok_clock)) if not v]
            if isinstance(val, int):
                msg = 'the timed wait can report ETIMEDOUT without: ' + ', '.join(missing) + ' (an early or spurious kernel timeout would be reported as a real one)'
            else:
                msg = 'the timed wait can return a computed non-zero result (%s) without: ' % fn.name_of(val) + ', '.join(missing) + ' (e.g. EINTR from an interrupted kernel wait reaches the caller, which takes every non-zero result for an expired deadline)'
            rep.violate(Violation(rid, _w(d, at), msg, site='nsync_mu_semaphore_p_with_deadline/etimedout-guards'))
    return len(defs)

def check_v_wakes(ctx, rep, rid):
    """the post operation increments the count and issues FUTEX_WAKE on every path on which a sleeper can be blocked - in the default and in the
    release (-DNDEBUG) configuration"""
    from ..symex import is_expr, eval_tree
    n = 0
    for cfg, tag in (('C', ''), ('CN', ' [NDEBUG build]')):
        mod = ctx.mod(cfg)
        eng, exits = futexmodel.analyse(ctx, cfg)['nsync_mu_semaphore_v']
        for x in exits:
            n += 1
            old = x.ghost.get(('inc_old',))
            may_be_zero = True
            if is_expr(old):
                may_be_zero = any(eval_tree(old[2], d) == 0 for d in x.S.get(old[1], ()))
            elif isinstance(old, tuple) and old[0] == 'const':
                may_be_zero = old[1] == 0
            ok = x.ghost.get(('flag', 'inc')) == 1 and (x.ghost.get(('flag', 'woke')) == 1 or not may_be_zero)
            rep.instance(rid, 'semaphore V exit%s: incremented=%s woke=%s' % (tag, x.ghost.get(('flag', 'inc')), x.ghost.get(('flag', 'woke')))); rep.oblig(rid, ok)
            if not ok:
                rep.violate(Violation(rid, _where_fn(mod.func('nsync_mu_semaphore_v')), 'the semaphore post can return without %s%s: a waiter blocked in FUTEX_WAIT is not resumed - the mutex is released and handed to nobody'
                                      % ('incrementing the count' if x.ghost.get(('flag', 'inc')) != 1 else 'issuing FUTEX_WAKE', tag), site='nsync_mu_semaphore_v/post-incomplete'))
    if n == 0:
        raise AnalysisBroken('%s: nsync_mu_semaphore_v has no exit' % rid)

def check_cas_retry_reloads(mod, rep, rid):
    from ..cfg import paths_avoiding
    wrappers = util.cas_wrappers(mod)
    n = 0
    for fn in mod.defined.values():
        if not (fn.file or '').endswith('nsync_semaphore_futex.c'):
            continue
        def on_count(ref):
            return isinstance(ref, str) and util.last_field(util.addr_class(mod, fn, ref)) == futexmodel.FIELD
        loads = set(id(i) for i in fn.real_insts() if i.op == 'load' and i.ord != 'na' and on_count(i.ops[0]))
        for c in fn.real_insts():
            is_cas = (c.op == 'cmpxchg' and on_count(c.ops[0])) or (c.op == 'call' and c.callee in wrappers and c.ops and on_count(c.ops[0]))
            if not is_cas:
                continue
            n += 1
            again = paths_avoiding(fn, c, lambda i: i is c, lambda i: id(i) in loads)
            rep.instance(rid, '%s: CAS on the count at %s: every retry re-loads the count: %s' % (fn.name, c.where(), again is None)); rep.oblig(rid, again is None)
            if again is not None:
                rep.violate(Violation(rid, c.where(), '%s can retry this CAS without re-loading the count: the expected value is passed by value and stays stale after a failure, so once another thread has changed the count the loop can never succeed - the waiter spins for ever although posts are pending (a post does not make the wait return)' % fn.name,
                                      site='%s/stale-cas-retry' % fn.name))
    if n == 0:
        raise AnalysisBroken('%s: no CAS on the semaphore count found' % rid)

def run(ctx, rep):
    mod = ctx.mod('C')
    K = ctx.probe
    rep.rule('C12.R1', 'FUTEX_WAIT is entered only with expected value 0, the count just observed')
    rep.rule('C12.R2', 'P succeeds only through CAS count->count-1 (count>=1); no other write to the count')
    rep.rule('C12.R3', 'ETIMEDOUT only under result=-1, errno=ETIMEDOUT and deadline<=now')
    rep.rule('C12.R4', 'V: CAS +1 then FUTEX_WAKE on every path')
    rep.rule('C12.R5', 'timeout pointer NULL exactly when the deadline is nsync_time_no_deadline')
    res = futexmodel.analyse(ctx)
    # the same protocol obligations on the release configuration (-DNDEBUG): whatever the code puts inside <assert.h> assertions - a system call,
    # say - is gone there
    resN = futexmodel.analyse(ctx, 'CN')
    for cfgtag, name, (eng, exits) in [('', n, v) for n, v in res.items()] + [(' [NDEBUG build]', n, v) for n, v in resN.items()]:
        rep.functions.update(f for r in eng.records for f in r.stack)
        isP = name in ('nsync_mu_semaphore_p', 'nsync_mu_semaphore_p_with_deadline')
        for r in eng.records:
            if r.kind == 'trans':
                s = r.site(eng.wrappers)
                if r.how == 'store':
                    ok = name == 'nsync_mu_semaphore_init' and r.pairs is not None and all(n == 0 for e, n in r.pairs)
                    msg = 'the semaphore count is overwritten by a plain store: a post that lands between the load and the store is lost'
                elif isP:
                    ok = r.pairs is not None and all(n == e - 1 and e >= 1 for e, n in r.pairs)
                    msg = 'P changes the count by something other than -1 from a positive value: %s' % sorted(set(r.pairs or []))[:4]
                else:
                    ok = r.pairs is not None and all(n == e + 1 for e, n in r.pairs)
                    msg = 'V changes the count by something other than +1: %s' % sorted(set(r.pairs or []))[:4]
                rep.instance('C12.R2', '%s %s in %s: %s' % (r.how, r.ord, name, sorted(set(r.pairs or []))[:4]))
                rep.oblig('C12.R2', ok)
                if not ok:
                    rep.violate(Violation('C12.R2', s.where(), msg + cfgtag, site='%s/count-write' % name))
            elif r.kind == 'futex' and r.fkind == 'wait':
                ok = r.vals is not None and r.vals <= {0}
                rep.instance('C12.R1', '%s: FUTEX_WAIT expected value %s at %s' % (name, sorted(r.vals) if r.vals is not None else 'unknown', r.where()))
                rep.oblig('C12.R1', ok)
                if not ok:
                    rep.violate(Violation('C12.R1', r.where(), '%s sleeps in FUTEX_WAIT expecting %s instead of the observed count 0: with a non-zero count the kernel blocks although posts are pending, or the wait never blocks'
                                          % (name, sorted(r.vals) if r.vals is not None else 'an unknown value') + cfgtag, site='%s/futex-wait-value' % name))
        for x in exits:
            rv = x.trace[0] if x.trace else None
            if isP:
                succ = rv is None or rv == 0
                if succ:
                    ok = x.ghost.get(('flag', 'dec')) == 1
                    rep.instance('C12.R2', '%s: successful return, decremented=%s' % (name, ok))
                    rep.oblig('C12.R2', ok)
                    if not ok:
                        rep.violate(Violation('C12.R2', _where_fn(mod.func(name)), '%s can return success without having decremented the count by a successful CAS (a wait would succeed without a post)' % name + cfgtag,
                                              site='%s/success-without-cas' % name))
                elif not isinstance(rv, int):
                    # a computed result the interpreter cannot evaluate (errno handed through, say): whether it is a failure on this path is not
                    # known here; R3 judges every computed result definition of the timed P
                    rep.instance('C12.R2', '%s: computed return value, left to R3' % name)
                else:
                    # a failure return (ETIMEDOUT) must not have consumed a post: the poster's V is spent, nobody will post again for it,
                    # and the caller treats the wait as timed out (lost post)
                    took = x.ghost.get(('flag', 'dec')) == 1
                    rep.instance('C12.R2', '%s: return %r, count decremented on this path: %s' % (name, rv, took))
                    rep.oblig('C12.R2', not took)
                    if took:
                        rep.violate(Violation('C12.R2', _where_fn(mod.func(name)), '%s can return %r after having decremented the count by a successful CAS: the post is consumed but the wait is reported as timed out, so the post is lost' % (name, rv) + cfgtag,
                                              site='%s/failure-after-cas' % name))
            elif name == 'nsync_mu_semaphore_v':
                old = x.ghost.get(('inc_old',))
                from ..symex import is_expr, eval_tree
                may_be_zero = True
                if is_expr(old):
                    may_be_zero = any(eval_tree(old[2], d) == 0 for d in x.S.get(old[1], ()))
                elif isinstance(old, tuple) and old[0] == 'const':
                    may_be_zero = old[1] == 0
                # a sleeper can be blocked only while the count is 0: the wake-up is owed whenever the post found the count at 0
                ok = x.ghost.get(('flag', 'inc')) == 1 and (x.ghost.get(('flag', 'woke')) == 1 or not may_be_zero)
                rep.instance('C12.R4', 'V exit%s: incremented=%s woke=%s' % (cfgtag, x.ghost.get(('flag', 'inc')), x.ghost.get(('flag', 'woke'))))
                rep.oblig('C12.R4', ok)
                if not ok:
                    rep.violate(Violation('C12.R4', _where_fn(mod.func(name)), 'V can return without %s: a sleeper blocked in FUTEX_WAIT is not resumed'
                                          % ('incrementing the count' if x.ghost.get(('flag', 'inc')) != 1 else 'issuing FUTEX_WAKE') + cfgtag, site='%s/post-incomplete' % name))
    check_timeout_guards(mod, K, rep, 'C12.R3')
    rep.rule('C12.R6', 'a failed CAS on the count is retried only after re-loading the count')
    check_cas_retry_reloads(mod, rep, 'C12.R6')
    # ... and the clock re-check means what it says only if nsync_time_cmp orders every pair of times exactly (shared with C18.R2 / C15.R5)
    from . import C18
    C18.check(ctx, rep, {'cmp': 'C12.R3'})
    # R5: NULL timeout <=> no_deadline - decided on the interpretation: the deadline is symbolic over representatives, nsync_time_cmp is
    # interpreted in place, so at each kernel wait the set of deadlines that reach it is known
    eng, exits = res['nsync_mu_semaphore_p_with_deadline']
    nd = futexmodel.no_deadline_const(mod)
    if nd is None:
        raise AnalysisBroken('C12.R5: the constant nsync_time_no_deadline was not found')
    MAXS, MAXN = nd          # (what value the constant should have is C18.R4's business)
    found = False
    for r in eng.records:
        if r.kind == 'futex' and r.fkind == 'wait' and r.ts == 'NULL':
            found = True
            dl = getattr(r, 'deadline', None) or {}
            secs, nsecs = dl.get('sec'), dl.get('nsec')
            ok = secs is not None and nsecs is not None and set(secs) <= {MAXS} and set(nsecs) <= {MAXN}
            rep.instance('C12.R5', 'kernel wait without timeout at %s: deadlines reaching it: sec %s nsec %s' % (r.where(), sorted(secs)[:3] if secs else secs, sorted(nsecs)[:3] if nsecs else nsecs))
            rep.oblig('C12.R5', ok)
            if not ok:
                rep.violate(Violation('C12.R5', r.where(), 'the kernel wait gets no timeout for a deadline other than nsync_time_no_deadline (e.g. seconds %s): a finite deadline would sleep forever' % (sorted(secs)[:2] if secs else '?'),
                                      site='nsync_mu_semaphore_p_with_deadline/null-timeout'))
    if not found:
        raise AnalysisBroken('C12.R5: no kernel wait without a timeout found (nsync_time_no_deadline must wait unboundedly)')
    rep.floor('C12.R1', 2)
    rep.floor('C12.R2', 5)
    rep.floor('C12.R3', 1)
    rep.floor('C12.R4', 1)
    rep.assumptions += ['kernel: FUTEX_WAIT compares and blocks atomically; FUTEX_WAKE wakes a blocked waiter; an absolute timeout in the past returns ETIMEDOUT',
                        'count abstracted to {0,1,2,3} (the code only tests count == 0 and adds/subtracts 1)']
    return rep.finish(
        explanation='Interpretation of init/P/timed P/V with the futex count as a tracked word: every count write, every FUTEX_WAIT/WAKE syscall (operation decoded from the constant) and every exit is judged; R3/R5 are guard (dominance) rules on the CFG.',
        trusted_base=['clang 14 IR', 'nsa/symex.py', 'futex semantics (assumed)'])

"""C18 - nsync_time arithmetic is exact on normalized values.

Engine E4 (nsa.affine): each function is evaluated symbolically over all inputs in the stated ranges; every path yields the result in closed
form together with the linear constraints of the path.  Obligations, per path:
  add/sub : 1e9*sec + nsec equals 1e9*(a.sec +/- b.sec) + (a.nsec +/- b.nsec) as an identity of affine forms; 0 <= nsec < 1e9; no instruction wraps
            (seconds overflow excluded by bounding seconds to +/-2^61, as the statement does).  (a+b)-b = a follows from exactness + uniqueness of the normal form.
  cmp     : over all 64-bit seconds and nanoseconds, the result is 1 / 0 / -1 exactly according to the lexicographic order; every path must determine
            that order (a path that returns without deciding it is a violation), and no arithmetic on the operands may wrap.
  ms/us   : for every 32-bit argument 1e9*sec + nsec = 1e6*ms (1e3*us), nsec < 1e9, no 32-bit wrap.
  s_ns    : returns its arguments.
  constants: nsync_time_zero = (0,0); nsync_time_no_deadline = (max time_t, 1e9-1).
Both the C file (platform/posix/src/time_rep.c, internal/time_internal.c) and the C++ sibling (platform/c++11/src/time_rep_timespec.cc) are checked."""
from .. import ir as IR
from ..affine import Evaluator, Aff, Path, Inexact
from ..report import Violation, AnalysisBroken

NS = 1000000000
SEC_LO, SEC_HI = -(1 << 61), (1 << 61)
I64 = (-(1 << 63), (1 << 63) - 1)

def find(mod, srcname):
    for f in mod.defined.values():
        if f.srcname == srcname or f.name == srcname:
            return f
    return None

def subst(a, path):
    """eliminate input variables that have a division relation x = c*q + r"""
    out = a
    for key, (x, repl) in path.rel.items():
        if len(x.c) == 1 and x.k == 0:
            (v, coef), = x.c.items()
            if coef == 1 and v in out.c:
                m = out.c[v]
                c = dict(out.c); del c[v]
                out = Aff(c, out.k) + repl.scale(m)
    return out

def run(ctx, rep):
    rep.rule('C18.R1', 'add/sub: exact (affine identity) and normalised on every path, no wrap')
    rep.rule('C18.R2', 'cmp: lexicographic sign on every path, decided from comparisons only, no wrap')
    rep.rule('C18.R3', 'ms/us/s_ns: exact conversion for every 32-bit argument, no wrap')
    rep.rule('C18.R4', 'constants zero and no_deadline')
    check(ctx, rep, {'addsub': 'C18.R1', 'cmp': 'C18.R2', 'conv': 'C18.R3', 'const': 'C18.R4'})
    rep.floor('C18.R1', 8)
    rep.floor('C18.R2', 10)
    rep.floor('C18.R3', 6)
    rep.assumptions += ['seconds stay within +/-2^61 for add/sub (overflow of the seconds field is excluded by the statement)',
                        'time_t is 64-bit signed, nanoseconds field is long (from the IR signatures)',
                        '(a+b)-b = a and totality of the order follow from exactness and the uniqueness of the normalised representation']
    return rep.finish(
        explanation='Symbolic evaluation to closed affine forms with path constraints (engine E4) of the time functions in the C and C++ builds; identities are compared coefficient-wise, ranges by interval arithmetic refined with the path constraints.',
        trusted_base=['clang 14 IR + sroa', 'nsa/affine.py'])

def check(ctx, rep, RID, addsub=(('nsync_time_add', 1), ('nsync_time_sub', -1))):
    """RID maps the parts {'addsub','cmp','conv','const'} to the rule ids they are reported under; parts not in RID are skipped
    (C15 reuses 'addsub' restricted to add, and 'cmp', for the deadline values the library computes and compares)."""
    R1, R2, R3, R4 = RID.get('addsub'), RID.get('cmp'), RID.get('conv'), RID.get('const')
    for cfgname in ('C', 'CXX'):
        mod = ctx.mod(cfgname)
        ev = Evaluator(mod, inline=('nsync_time_s_ns', 'nsync_time_us', 'nsync_time_ms'))
        tag = '[%s]' % cfgname
        def fn_of(n):
            f = find(mod, n)
            if f is None:
                raise AnalysisBroken('C18: %s not found in configuration %s' % (n, cfgname))
            if [a['ty'] for a in f.args] not in (['i64'] * 4, ['i32'], ['i64', 'i32']):
                raise AnalysisBroken('C18: unexpected signature of %s in %s: %s' % (n, cfgname, [a['ty'] for a in f.args]))
            rep.functions.add(f.name)
            return f
        def where(f):
            return '%s:%d in %s' % (IR.rel(f.file), f.line, f.srcname)
        def run_exact(rid, f, args, ranges):
            """paths of f in closed form - or, if f computes with floating point, a violation (a double cannot be exact over 64 bits) and no paths"""
            try:
                return ev.run(f, args, ranges)
            except Inexact as e:
                rep.instance(rid, '%s %s: %s' % (tag, f.srcname, e)); rep.oblig(rid, False)
                rep.violate(Violation(rid, e.inst.where(), '%s %s computes with floating point (%s): a double has a 53-bit mantissa, so results are not exact - times that differ by less than the rounding step compare equal / convert to a neighbouring value - over the 64-bit range the property quantifies over' % (tag, f.srcname, e),
                                      site='%s/%s-floating-point' % (f.srcname, cfgname)))
                return None
        # ---- add / sub
        for name, sign in (addsub if R1 else ()):
            f = fn_of(name)
            A = [Aff({'a.sec': 1}), Aff({'a.nsec': 1}), Aff({'b.sec': 1}), Aff({'b.nsec': 1})]
            ranges = {'a.sec': (SEC_LO, SEC_HI), 'b.sec': (SEC_LO, SEC_HI), 'a.nsec': (0, NS - 1), 'b.nsec': (0, NS - 1)}
            paths = run_exact(R1, f, A, ranges)
            if paths is None:
                continue
            if not paths:
                raise AnalysisBroken('C18: %s has no feasible path' % name)
            for p, rv in paths:
                if not (isinstance(rv, tuple) and len(rv) == 2 and all(isinstance(x, Aff) for x in rv)):
                    raise AnalysisBroken('C18: %s does not return a (seconds, nanoseconds) pair in closed form' % name)
                sec, nsec = rv
                total = sec.scale(NS) + nsec
                want = (A[0] + A[2].scale(sign)).scale(NS) + A[1] + A[3].scale(sign)
                lo, hi = p.interval(nsec)
                msgs = []
                if not (total == want):
                    msgs.append('result 1e9*sec+nsec = %s differs from the exact %s (%s)' % (total, 'sum' if sign == 1 else 'difference', want))
                if lo < 0 or hi > NS - 1:
                    msgs.append('result nanoseconds range over [%d, %d], not normalised to [0, 1e9)' % (lo, hi))
                msgs += [m for _, m in p.issues]
                desc = '%s %s path {%s}: sec=%s nsec=%s in [%d,%d]' % (tag, name, '; '.join('%s %s 0' % (c, o) for c, o in p.cons), sec, nsec, lo, hi)
                rep.instance(R1, desc)
                rep.oblig(R1, not msgs)
                for m in msgs:
                    rep.violate(Violation(R1, where(f), '%s %s on the path {%s}: %s' % (tag, name, '; '.join('%s %s 0' % (c, o) for c, o in p.cons), m),
                                          site='%s/%s-exact' % (f.srcname, cfgname)))
        # ---- cmp
        if R2:
            f = fn_of('nsync_time_cmp')
            A = [Aff({'a.sec': 1}), Aff({'a.nsec': 1}), Aff({'b.sec': 1}), Aff({'b.nsec': 1})]
            ranges = {'a.sec': I64, 'b.sec': I64, 'a.nsec': I64, 'b.nsec': I64}
            paths = run_exact(R2, f, A, ranges) or []
            for p, rv in paths:
                msgs = [m for _, m in p.issues]
                d1 = p.interval(A[0] - A[2])
                d2 = p.interval(A[1] - A[3])
                def sgn(iv):
                    lo, hi = iv
                    if lo > 0: return 1
                    if hi < 0: return -1
                    if lo == hi == 0: return 0
                    return None
                s1, s2 = sgn(d1), sgn(d2)
                want = s1 if s1 != 0 else s2
                if s1 is None or want is None:
                    msgs.append('returns %s without having determined the order of the %s' % (rv, 'seconds' if s1 is None else 'nanoseconds (seconds equal)'))
                elif not (isinstance(rv, Aff) and rv.is_const()):
                    msgs.append('the result is not a constant on this path (%s)' % (rv,))
                else:
                    got = rv.k - (1 << 32) if rv.k >= (1 << 31) else rv.k
                    if (got > 0) - (got < 0) != want or got not in (-1, 0, 1):
                        msgs.append('returns %d where the lexicographic order gives %d' % (got, want))
                rep.instance(R2, '%s cmp path {%s} -> %s' % (tag, '; '.join('%s %s 0' % (c, o) for c, o in p.cons), rv))
                rep.oblig(R2, not msgs)
                for m in msgs:
                    rep.violate(Violation(R2, where(f), '%s nsync_time_cmp on the path {%s}: %s' % (tag, '; '.join('%s %s 0' % (c, o) for c, o in p.cons), m),
                                          site='%s/%s-order' % (f.srcname, cfgname)))
        # ---- ms / us / s_ns
        if R3:
            for name, unit in (('nsync_time_ms', 1000000), ('nsync_time_us', 1000)):
                f = fn_of(name)
                x = Aff({'x': 1})
                paths = run_exact(R3, f, [x], {'x': (0, (1 << 32) - 1)})
                if paths is None:
                    continue
                for p, rv in paths:
                    msgs = [m for _, m in p.issues]
                    if not (isinstance(rv, tuple) and len(rv) == 2):
                        raise AnalysisBroken('C18: %s does not return a pair' % name)
                    sec, nsec = rv
                    total = subst(sec.scale(NS) + nsec, p)
                    want = subst(x.scale(unit), p)
                    lo, hi = p.interval(nsec)
                    if not (total == want):
                        msgs.append('1e9*sec+nsec = %s differs from %d*arg = %s' % (total, unit, want))
                    if lo < 0 or hi > NS - 1:
                        msgs.append('nanoseconds range over [%d, %d]' % (lo, hi))
                    rep.instance(R3, '%s %s: sec=%s nsec=%s' % (tag, name, sec, nsec))
                    rep.oblig(R3, not msgs)
                    for m in msgs:
                        rep.violate(Violation(R3, where(f), '%s %s: %s' % (tag, name, m), site='%s/%s-exact' % (f.srcname, cfgname)))
            f = fn_of('nsync_time_s_ns')
            s_, n_ = Aff({'s': 1}), Aff({'ns': 1})
            for p, rv in (run_exact(R3, f, [s_, n_], {'s': I64, 'ns': (0, (1 << 32) - 1)}) or []):
                ok = isinstance(rv, tuple) and rv[0] == s_ and rv[1] == n_ and not p.issues
                rep.instance(R3, '%s nsync_time_s_ns -> %s' % (tag, rv))
                rep.oblig(R3, ok)
                if not ok:
                    rep.violate(Violation(R3, where(f), '%s nsync_time_s_ns does not return (s, ns): %s' % (tag, rv), site='%s/%s-exact' % (f.srcname, cfgname)))
        # ---- constants
        if R4:
            for gname, want in (('nsync_time_zero', (0, 0)), ('nsync_time_no_deadline', ((1 << 63) - 1, NS - 1))):
                g = None
                for n, gg in mod.globals.items():
                    if gg.get('srcname') == gname or n == gname:
                        g = gg
                if g is None or 'init' not in g:
                    raise AnalysisBroken('C18: constant %s not found in %s' % (gname, cfgname))
                init = g['init']
                if init.get('k') == 'zero':
                    got = (0, 0)
                elif init.get('k') == 'agg':
                    got = tuple(e.get('v') for e in init['elts'])
                else:
                    got = None
                ok = got == want and g.get('const')
                rep.instance(R4, '%s %s = %s' % (tag, gname, got))
                rep.oblig(R4, bool(ok))
                if not ok:
                    rep.violate(Violation(R4, '%s:%s' % (IR.rel(g.get('file', '?')), g.get('line', 0)), '%s %s is %s, expected %s (constant)' % (tag, gname, got, want), site='%s/%s-const' % (gname, cfgname)))

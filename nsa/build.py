"""Build pipeline: /repo working tree -> compile DB (cmake+ninja -t compdb) -> LLVM bitcode (clang-14, never
linked into an executable, never run) -> llvm-link -> opt sroa -> irfacts JSON.

Results are cached under /verif/.cache/ir/<hash of every source file's content>, so every run re-reads /repo and
rebuilds whenever anything changed.  Scratch directories live outside /repo and /verif and are removed."""
import hashlib, json, os, shutil, subprocess, sys, tempfile, fcntl, time
from concurrent.futures import ThreadPoolExecutor

# (NSA_VERIF_HOME: tools/matrix.py runs the checks from a snapshot of nsa/ while sharing the cache and the irfacts binary of the checkout)
VERIF = os.environ.get('NSA_VERIF_HOME') or os.path.dirname(os.path.dirname(os.path.abspath(__file__)))
REPO = os.environ.get('NSA_REPO', '/repo')
CACHE = os.path.join(VERIF, '.cache', 'ir')
IRFACTS = os.path.join(VERIF, 'tools', 'irfacts')
CLANG = 'clang-14'
LLVM_LINK = 'llvm-link-14'
OPT = 'opt-14'

class BuildError(Exception):
    pass

def _run(cmd, cwd=None):
    p = subprocess.run(cmd, cwd=cwd, stdout=subprocess.PIPE, stderr=subprocess.STDOUT, text=True)
    if p.returncode != 0:
        raise BuildError('command failed: %s\n%s' % (' '.join(cmd), p.stdout[-4000:]))
    return p.stdout

def ensure_irfacts():
    src = IRFACTS + '.cc'
    if os.path.exists(IRFACTS) and os.path.getmtime(IRFACTS) >= os.path.getmtime(src):
        return
    flags = subprocess.run(['llvm-config-14', '--cxxflags'], stdout=subprocess.PIPE, text=True, check=True).stdout.split()
    tmp = IRFACTS + '.tmp.%d' % os.getpid()
    _run(['clang++'] + flags + ['-fno-rtti', '-O1', src, '-o', tmp, '/usr/lib/llvm-14/lib/libLLVM-14.so'])
    os.replace(tmp, IRFACTS)

def tree_hash(repo=None):
    repo = repo or REPO
    h = hashlib.sha256()
    roots = ['internal', 'platform', 'public', 'CMakeLists.txt']
    files = []
    for r in roots:
        p = os.path.join(repo, r)
        if os.path.isfile(p):
            files.append(p)
        else:
            for d, dn, fn in os.walk(p):
                dn.sort()
                for f in sorted(fn):
                    files.append(os.path.join(d, f))
    for f in files:
        h.update(os.path.relpath(f, repo).encode())
        with open(f, 'rb') as fh:
            h.update(hashlib.sha256(fh.read()).digest())
    # the tool and this script are part of the key
    for f in (IRFACTS + '.cc', os.path.abspath(__file__)):
        with open(f, 'rb') as fh:
            h.update(hashlib.sha256(fh.read()).digest())
    return h.hexdigest()[:20], len(files)

PROBE_C = r'''
#include "nsync_cpp.h"
#include "platform.h"
#include "compiler.h"
#include "cputype.h"
#include "nsync.h"
#include "dll.h"
#include "sem.h"
#include "wait_internal.h"
#include "common.h"
#include "atomic.h"
#include <errno.h>
#include <linux/futex.h>
#define P(n) const unsigned long long probe_##n = (unsigned long long)(n);
P(MU_WLOCK) P(MU_SPINLOCK) P(MU_WAITING) P(MU_DESIG_WAKER) P(MU_CONDITION) P(MU_WRITER_WAITING) P(MU_LONG_WAIT)
P(MU_ALL_FALSE) P(MU_RLOCK) P(MU_RLOCK_FIELD) P(MU_ANY_LOCK)
P(CV_SPINLOCK) P(CV_NON_EMPTY) P(NSYNC_WAITER_FLAG_MUCV) P(LONG_WAIT_THRESHOLD)
P(ETIMEDOUT) P(ECANCELED) P(EINTR) P(EWOULDBLOCK) P(EAGAIN)
P(WAITER_RESERVED) P(WAITER_IN_USE)
P(FUTEX_WAIT) P(FUTEX_WAKE) P(FUTEX_WAIT_BITSET) P(FUTEX_CMD_MASK) P(FUTEX_CLOCK_REALTIME)
'''

def api_macro_probe(repo):
    """probe lines for "is this API name a preprocessor macro after including nsync.h?": the rules analyse the bodies of the API functions, which
    is what clients execute only as long as the public headers do not interpose a function-like macro of the same name (a macro can evaluate
    its arguments twice, or short-cut the function with an unordered load).  The names are the lower-case nsync_* identifiers followed by '('
    in public/*.h."""
    import re, glob
    names = set()
    for h in sorted(glob.glob(os.path.join(repo, 'public', '*.h'))):
        try:
            txt = open(h, errors='replace').read()
        except OSError:
            continue
        names.update(re.findall(r'\b(nsync_[a-z0-9_]+)\s*\(', txt))
    out = ['']
    for n in sorted(names):
        out.append('#ifdef %s\nconst unsigned long long probe_macro_%s = 1;\n#else\nconst unsigned long long probe_macro_%s = 0;\n#endif' % (n, n, n))
    return '\n'.join(out) + '\n'

def _split_cmd(cmd):
    import shlex
    return shlex.split(cmd)

def _flags_from(entry):
    """-I/-D/-std/-pthread flags of a compile-DB entry (everything that affects the front end)."""
    toks = _split_cmd(entry['command'])
    out = []
    i = 1
    while i < len(toks):
        t = toks[i]
        if t in ('-o', '-MF', '-MT', '-MQ'):
            i += 2; continue
        if t in ('-c', '-MD', '-MMD'):
            i += 1; continue
        if t.startswith('-I') or t.startswith('-D') or t.startswith('-std') or t.startswith('-U') or t == '-pthread':
            out.append(t)
            if t in ('-I', '-D', '-U'):
                out.append(toks[i + 1]); i += 1
        elif t == '-isystem' or t == '-include':
            out += [t, toks[i + 1]]; i += 1
        i += 1
    return out

def merge_facts(tus):
    """Merge per-translation-unit facts into one program (a JSON-level link).  The units are NOT linked with llvm-link because
    its type mapping merges structurally identical structs (nsync_cv_s_ became nsync_mu_s_), which would destroy the field
    identities the rules rely on.  Internal-linkage symbols whose names collide get a '.<unit index>' suffix."""
    def walk(x, ren):
        if isinstance(x, dict):
            if x.get('k') in ('global', 'func') and x.get('n') in ren:
                x['n'] = ren[x['n']]
            c = x.get('callee')
            if isinstance(c, str) and c in ren:
                x['callee'] = ren[c]
            for v in x.values():
                if isinstance(v, (dict, list)):
                    walk(v, ren)
        elif isinstance(x, list):
            for v in x:
                if isinstance(v, (dict, list)):
                    walk(v, ren)
    out = {'source': 'merged', 'datalayout': tus[0]['datalayout'], 'structs': {}, 'ditypes': [], 'globals': {}, 'functions': {}}
    seen_di = set()
    taken_internal = set()
    for k, tu in enumerate(tus):
        ren = {}
        for n, f in tu['functions'].items():
            if f['internal'] and not f['decl']:
                if n in taken_internal or (n in out['functions'] and not out['functions'][n]['decl']):
                    ren[n] = '%s.%d' % (n, k)
                taken_internal.add(n)
        for n, g in tu['globals'].items():
            if g['internal'] and not g['decl']:
                if n in taken_internal or n in out['globals']:
                    ren[n] = '%s.%d' % (n, k)
                taken_internal.add(n)
        if ren:
            walk(tu['functions'], ren)
            walk(tu['globals'], ren)
        for n, f in tu['functions'].items():
            n2 = ren.get(n, n)
            f['tu'] = tu['source']
            cur = out['functions'].get(n2)
            if cur is None or (cur['decl'] and not f['decl']):
                out['functions'][n2] = f
        for n, g in tu['globals'].items():
            n2 = ren.get(n, n)
            cur = out['globals'].get(n2)
            if cur is None or (cur['decl'] and not g['decl']):
                out['globals'][n2] = g
        for n, st in tu['structs'].items():
            cur = out['structs'].get(n)
            if cur is None:
                out['structs'][n] = st
            elif cur != st:
                # same tag, different layout in another unit: keep both under a unit-qualified name
                out['structs']['%s@%d' % (n, k)] = st
        for t in tu['ditypes']:
            key = json.dumps(t, sort_keys=True)
            if key not in seen_di:
                seen_di.add(key)
                out['ditypes'].append(t)
    return out

def _build(repo, outdir):
    """returns meta dict; writes <outdir>/{C,CXX,C11,probe}.json"""
    ensure_irfacts()
    scratch = tempfile.mkdtemp(prefix='nsa-build-')
    try:
        cmk = os.path.join(scratch, 'cmk')
        os.makedirs(cmk)
        _run(['cmake', '-G', 'Ninja', '-S', repo, '-B', cmk])
        txt = subprocess.run(['ninja', '-C', cmk, '-t', 'compdb'], stdout=subprocess.PIPE, stderr=subprocess.DEVNULL, text=True, check=True).stdout
        db = json.loads(txt[txt.index('['):])
        ent_c = [e for e in db if e.get('output', '').startswith('CMakeFiles/nsync.dir/')]
        ent_x = [e for e in db if e.get('output', '').startswith('CMakeFiles/nsync_cpp.dir/')]
        if len(ent_c) < 10 or len(ent_x) < 10:
            raise BuildError('compile DB: library targets not found (nsync: %d units, nsync_cpp: %d units)' % (len(ent_c), len(ent_x)))
        jobs = []
        # the tested binaries are built by gcc: let clang's front end report gcc's version in __GNUC__/__GNUC_MINOR__, so that
        # version-guarded declarations (attributes such as const / returns_nonnull behind `#if __GNUC__ > 4 ...`) are seen as gcc sees them
        GNUC = []
        try:
            gv = subprocess.run(['gcc', '-dumpfullversion'], stdout=subprocess.PIPE, stderr=subprocess.DEVNULL, text=True).stdout.strip()
            if gv and gv[0].isdigit():
                # clang 14 cannot parse the _FloatN declarations glibc enables for __GNUC__ >= 7, so the reported version is capped at 6.5.0
                major = int(gv.split('.')[0])
                GNUC = ['-fgnuc-version=' + (gv if major < 7 else '6.5.0')]
        except Exception:
            pass
        units = {'C': [], 'CXX': [], 'C11': [], 'CN': []}
        def src_of(e):
            f = e['file']
            f = f if os.path.isabs(f) else os.path.join(e['directory'], f)
            if not os.path.exists(f):
                # nsync_cpp compiles build-time copies <build>/cpp/<s> of <repo>/<s> (add_custom_command
                # copy_if_different in CMakeLists.txt); analyse the original so that locations point into the repo
                rel = os.path.relpath(f, cmk)
                if rel.startswith('cpp' + os.sep) and os.path.exists(os.path.join(repo, rel[4:])):
                    return os.path.join(repo, rel[4:])
                raise BuildError('source of compile-DB entry not found: ' + f)
            return f
        for k, e in enumerate(ent_c):
            fl = _flags_from(e)
            src = src_of(e)
            o = os.path.join(scratch, 'C_%d.bc' % k)
            jobs.append([CLANG, '-I' + os.path.join(repo, 'platform/gcc_new')] + fl +
                        GNUC + ['-O0', '-Xclang', '-disable-O0-optnone', '-g', '-emit-llvm', '-c', src, '-o', o, '-w'])
            units['C'].append((src, o))
            o2 = os.path.join(scratch, 'C11_%d.bc' % k)
            jobs.append([CLANG, '-DNSYNC_ATOMIC_C11', '-I' + os.path.join(repo, 'platform/c11')] + fl +
                        GNUC + ['-O0', '-Xclang', '-disable-O0-optnone', '-g', '-emit-llvm', '-c', src, '-o', o2, '-w'])
            units['C11'].append((src, o2))
            # CN: the C configuration as a release build compiles it (-DNDEBUG): <assert.h> assertions, and whatever sits inside them, vanish
            o3 = os.path.join(scratch, 'CN_%d.bc' % k)
            jobs.append([CLANG, '-DNDEBUG', '-I' + os.path.join(repo, 'platform/gcc_new')] + fl +
                        GNUC + ['-O0', '-Xclang', '-disable-O0-optnone', '-g', '-emit-llvm', '-c', src, '-o', o3, '-w'])
            units['CN'].append((src, o3))
        for k, e in enumerate(ent_x):
            fl = _flags_from(e)
            src = src_of(e)
            o = os.path.join(scratch, 'CXX_%d.bc' % k)
            jobs.append([CLANG, '-x', 'c++'] + fl + GNUC + ['-O0', '-Xclang', '-disable-O0-optnone', '-g', '-emit-llvm', '-c', src, '-o', o, '-w'])
            units['CXX'].append((src, o))
        # probe TU (constants as the preprocessor sees them, C configuration)
        probe = os.path.join(scratch, 'probe.c')
        with open(probe, 'w') as f:
            f.write(PROBE_C + api_macro_probe(repo))
        jobs.append([CLANG, '-I' + os.path.join(repo, 'platform/gcc_new')] + _flags_from(ent_c[0]) +
                    ['-O0', '-emit-llvm', '-c', probe, '-o', os.path.join(scratch, 'probe.bc'), '-w'])
        with ThreadPoolExecutor(max_workers=16) as ex:
            list(ex.map(_run, jobs))
        meta = {'repo': repo, 'units': {}}
        def dump_unit(a):
            cfg, k, bc, passes = a
            if passes:
                opt = bc[:-3] + '.opt.bc'
                _run([OPT, '-passes=' + passes, bc, '-o', opt])
                bc = opt
            out = os.path.join(scratch, '%s_%d.json' % (cfg, k))
            _run([IRFACTS, bc, out])
            return out
        work = []
        for cfg, passes in (('C', 'sroa'), ('CXX', 'sroa'), ('C11', 'sroa'), ('CN', 'sroa')):
            for k, (_, o) in enumerate(units[cfg]):
                work.append((cfg, k, o, passes))
        with ThreadPoolExecutor(max_workers=16) as ex:
            outs = list(ex.map(dump_unit, work))
        bycfg = {}
        for (cfg, k, _, _), o in zip(work, outs):
            bycfg.setdefault(cfg, []).append(o)
        for cfg in ('C', 'CXX', 'C11', 'CN'):
            merged = merge_facts([json.load(open(o)) for o in bycfg[cfg]])
            with open(os.path.join(outdir, cfg + '.json'), 'w') as f:
                json.dump(merged, f)
            meta['units'][cfg] = [os.path.relpath(s2, repo) if s2.startswith(repo) else 'build:' + os.path.relpath(s2, cmk) for s2, _ in units[cfg]]
        _run([IRFACTS, os.path.join(scratch, 'probe.bc'), os.path.join(outdir, 'probe.json')])
        return meta
    finally:
        shutil.rmtree(scratch, ignore_errors=True)

def get_facts(repo=None):
    """Return (dir with C.json, CXX.json, C11.json, probe.json, meta.json) for the current working tree of repo."""
    repo = repo or REPO
    key, nfiles = tree_hash(repo)
    # the key is the content of the tree only: scratch copies with the same content share one entry (locations are reported
    # relative to the source root, see ir.rel)
    os.makedirs(CACHE, exist_ok=True)
    final = os.path.join(CACHE, key)
    if os.path.exists(os.path.join(final, 'meta.json')):
        try:
            os.utime(final, None)          # recently used: concurrent runs on other trees trim the cache by age
        except OSError:
            pass
        return final
    lock = open(os.path.join(CACHE, '.lock'), 'w')
    fcntl.flock(lock, fcntl.LOCK_EX)
    try:
        if os.path.exists(os.path.join(final, 'meta.json')):
            return final
        tmp = tempfile.mkdtemp(prefix='tmp-', dir=CACHE)
        t0 = time.time()
        meta = _build(repo, tmp)
        meta['tree_hash'] = key
        meta['source_files_hashed'] = nfiles
        meta['build_s'] = round(time.time() - t0, 2)
        with open(os.path.join(tmp, 'meta.json'), 'w') as f:
            json.dump(meta, f)
        if os.path.exists(final):
            shutil.rmtree(final)
        os.rename(tmp, final)
        # keep the cache small: drop all but the 240 newest entries (about 8 MB each); entries of other trees that are being
        # analysed concurrently (matrix runs over scratch copies) must survive until their checks are done
        ents = sorted((os.path.getmtime(os.path.join(CACHE, d)), d) for d in os.listdir(CACHE)
                      if os.path.isdir(os.path.join(CACHE, d)) and not d.startswith('tmp-'))
        for _, d in ents[:-240]:
            shutil.rmtree(os.path.join(CACHE, d), ignore_errors=True)
        return final
    finally:
        fcntl.flock(lock, fcntl.LOCK_UN)
        lock.close()

if __name__ == '__main__':
    if len(sys.argv) > 1 and sys.argv[1] == 'setup':
        ensure_irfacts()
        print('irfacts ready')
    else:
        d = get_facts(sys.argv[1] if len(sys.argv) > 1 else None)
        print(d)
        print(open(os.path.join(d, 'meta.json')).read()[:600])

"""Engine E4 with a small memory model: path-by-path evaluation of the functions that write through the debug emit buffer.

The buffer descriptor *b (struct emit_buf) is modelled field by field: start is the pointer ('ptr', 'buf', 0), len / pos / overflow are
integer variables constrained by the invariant 0 <= pos <= len (len >= 0 is the caller's contract).  Pointers are (base, affine offset);
loads from anything else yield unconstrained values of their type.  Every store through a pointer into 'buf' must have an offset that the
path's linear constraints put inside [0, len); every store to a descriptor field must keep start and len unchanged and 0 <= pos <= len.
Loops are unrolled along the constraints (the marker loops run at most four times); a function that does not finish within the evaluator's
path bound is reported as not decided (None), never as proven."""
from .affine import Evaluator, Aff, Path
from .report import AnalysisBroken
from . import ir as IR, util

BUFS = 'emit_buf'
INT_MAX = (1 << 31) - 1

def P(base, off):
    return ('ptr', base, off if isinstance(off, Aff) else Aff({}, int(off)))

class BufEvaluator(Evaluator):
    def __init__(self, mod):
        Evaluator.__init__(self, mod, unsigned_types=())
        self.gbytes = {}        # fresh variable -> (constant string global, offset) it was loaded from
        self.stores = []        # (inst, ok, description)
        self.fieldwrites = []   # (inst, field, ok, description)
        self.nfresh = 0
    def fresh_var(self, path, ty):
        self.nfresh += 1
        v = 'm%d' % self.nfresh
        w = int(ty[1:]) if ty.startswith('i') and ty[1:].isdigit() else 64
        path.ranges[v] = (-(1 << (w - 1)), (1 << w) - 1) if w < 64 else (-(1 << 63), (1 << 63) - 1)
        return Aff({v: 1})
    def const_byte(self, base, off):
        """the byte at a constant offset of a constant string global, or None"""
        if not base.startswith('g:') or not off.is_const():
            return None
        g = self.mod.globals.get(base[2:])
        if not g or not g.get('const') or g.get('init', {}).get('k') != 'str':
            return None
        v = g['init']['v']
        return ord(v[off.k]) if 0 <= off.k < len(v) else None
    def note_zero(self, path, off, val):
        """remember the store (offset, value) - whether the text ends up NUL-terminated is decided at the exit, under the final constraints"""
        path.mem['bufstores'] = path.mem.get('bufstores', ()) + ((off, val),)
    def value_is_zero(self, path, val):
        if not isinstance(val, Aff):
            return False
        lo, hi = path.interval(val)
        if lo == hi == 0:
            return True
        if len(val.c) == 1 and val.k == 0:
            (v, c), = val.c.items()
            if c == 1 and v in self.gbytes:
                base, off = self.gbytes[v]
                l2, h2 = path.interval(off)
                if l2 == h2:
                    return self.const_byte(base, Aff({}, l2)) == 0
        return False
    def terminated(self, path):
        """at an exit: is there a 0 at the entry cursor position or in the last byte, not overwritten afterwards?"""
        ln = path.mem[BUFS + '.len']
        for place in (Aff({'pos': 1}), ln - Aff({}, 1)):
            for off, val in reversed(path.mem.get('bufstores', ())):
                if off == 'block-end':
                    if place is not None and (place - (ln - Aff({}, 1))).is_const() and (place - (ln - Aff({}, 1))).k == 0:
                        if val is True:
                            return True
                        break
                    continue
                d = off - place
                lo, hi = path.interval(d)
                if lo == hi == 0:
                    if self.value_is_zero(path, val):
                        return True
                    break          # the last store to that place is not a 0
                if lo <= 0 <= hi:
                    break          # may or may not be that place: undecided, do not claim
        return False
    def _check(self, path, inst, a, unsigned=None):
        return          # wrap-around of intermediate values is not this engine's business; offsets are checked at the stores
    def _val(self, regs, ref):
        if isinstance(ref, dict):
            k = ref.get('k')
            if k == 'null':
                return P('null', 0)
            if k == 'global':
                return P('g:' + ref['n'], 0)
            if k == 'cexpr' and ref.get('op') in ('getelementptr', 'bitcast'):
                b = self._val(regs, ref['ops'][0])
                if isinstance(b, tuple) and b[0] == 'ptr':
                    if ref['op'] == 'bitcast':
                        return b
                    if ref.get('coff') is not None:
                        return P(b[1], b[2] + Aff({}, ref['coff']))
                raise AnalysisBroken('bufeval: constant expression %r' % ref)
        return Evaluator._val(self, regs, ref)
    def field(self, fn, gep):
        path = gep.x.get('path') or []
        if len(path) == 2 and 'f' in path[1] and path[1].get('s', '').endswith(BUFS) and IR.is_int(gep.ops[1]) and IR.ival(gep.ops[1]) == 0:
            ac = util.addr_class(self.mod, fn, gep.id)
            return util.last_field(ac)
        return None
    def hook(self, fn, regs, path, i):
        op = i.op
        if op == 'alloca':
            regs[i.id] = P('alloca:%s:%s' % (fn.name, i.id), 0)
            return True
        if op in ('bitcast', 'addrspacecast') and isinstance(regs.get(i.ops[0]) if isinstance(i.ops[0], str) else None, tuple) and regs[i.ops[0]][0] in ('ptr', 'fld'):
            regs[i.id] = regs[i.ops[0]]
            return True
        if op == 'getelementptr':
            b = self._val(regs, i.ops[0])
            if isinstance(b, tuple) and b[0] == 'ptr' and b[1] == 'desc':
                f = self.field(fn, i)
                if f is None:
                    raise AnalysisBroken('bufeval: address arithmetic on the descriptor at %s' % i.where())
                regs[i.id] = ('fld', f)
                return True
            if isinstance(b, tuple) and b[0] == 'ptr':
                off = b[2]
                pth = i.x.get('path') or []
                if len(pth) != len(i.ops) - 1:
                    raise AnalysisBroken('bufeval: unsupported address computation at %s' % i.where())
                for step, o in zip(pth, i.ops[1:]):
                    if 'f' in step:
                        off = off + Aff({}, step.get('off', 0))
                    else:
                        idx = self._val(regs, o)
                        if not isinstance(idx, Aff):
                            raise AnalysisBroken('bufeval: non-integer index at %s' % i.where())
                        off = off + idx.scale(int(step.get('p', 1)))
                regs[i.id] = P(b[1], off)
                return True
            raise AnalysisBroken('bufeval: address computation on %r at %s' % (b, i.where()))
        if op == 'load':
            a = self._val(regs, i.ops[0])
            if isinstance(a, tuple) and a[0] == 'fld':
                if a[1] not in path.mem:
                    # a descriptor field the proof knows nothing about (a statistics counter, say): some value of its type
                    path.mem[a[1]] = P('unknown:%s' % i.id, 0) if i.ty.endswith('*') else self.fresh_var(path, i.ty)
                regs[i.id] = path.mem[a[1]]
                return True
            if isinstance(a, tuple) and a[0] == 'ptr':
                cell = ('cell', a[1], a[2].key())
                cb = self.const_byte(a[1], a[2]) if i.ty == 'i8' else None
                if cb is not None:
                    regs[i.id] = Aff({}, cb)
                elif i.ty == 'i8' and a[1].startswith('g:') and self.mod.globals.get(a[1][2:], {}).get('init', {}).get('k') == 'str':
                    fv = self.fresh_var(path, i.ty)          # a byte of a constant string at an offset the path may pin down later
                    self.gbytes[list(fv.c)[0]] = (a[1], a[2])
                    regs[i.id] = fv
                elif a[1].startswith('alloca:') and cell in path.mem:
                    regs[i.id] = path.mem[cell]
                elif i.ty.endswith('*'):
                    regs[i.id] = P('unknown:%s' % i.id, 0)
                else:
                    regs[i.id] = self.fresh_var(path, i.ty)
                return True
            raise AnalysisBroken('bufeval: load through %r at %s' % (a, i.where()))
        if op == 'store':
            v = self._val(regs, i.ops[0])
            a = self._val(regs, i.ops[1])
            if isinstance(a, tuple) and a[0] == 'fld':
                f = a[1]
                short = f.split('.')[-1]
                ok, why = True, ''
                if short in ('start', 'len'):
                    ok = v == path.mem[f] if not isinstance(v, Aff) else (isinstance(path.mem[f], Aff) and v == path.mem[f])
                    why = '%s is modified' % short
                elif short == 'pos':
                    ln = path.mem[BUFS + '.len']
                    ok = isinstance(v, Aff) and path.interval(v)[0] >= 0 and path.interval(v - ln)[1] <= 0
                    why = 'pos leaves [0, len]: pos in [%s, %s], pos - len <= %s' % (path.interval(v) + (path.interval(v - ln)[1],)) if isinstance(v, Aff) else 'pos is not an integer'
                self.fieldwrites.append((i, short, ok, why))
                path.mem[f] = v
                return True
            if isinstance(a, tuple) and a[0] == 'ptr':
                if a[1] == 'buf':
                    ln = path.mem[BUFS + '.len']
                    lo, _ = path.interval(a[2])
                    _, hi = path.interval(a[2] - ln)
                    ok = lo >= 0 and hi <= -1
                    self.stores.append((i, ok, 'offset %s: >= %d, offset - len <= %d' % (a[2], lo, hi)))
                    self.note_zero(path, a[2], v)
                elif a[1].startswith('alloca:'):
                    path.mem[('cell', a[1], a[2].key())] = v
                elif a[1] in ('desc', 'null') or a[1].startswith(('g:', 'unknown:')):
                    self.stores.append((i, False, 'store through %s' % a[1]))
                return True
            raise AnalysisBroken('bufeval: store through %r at %s' % (a, i.where()))
        if op == 'icmp':
            a, b = self._val(regs, i.ops[0]), self._val(regs, i.ops[1])
            pa = isinstance(a, tuple) and a and a[0] == 'ptr'
            pb = isinstance(b, tuple) and b and b[0] == 'ptr'
            if pa or pb:
                if pa and pb and a[1] == b[1]:
                    pred = i.x['pred']
                    pred = {'ugt': 'sgt', 'uge': 'sge', 'ult': 'slt', 'ule': 'sle'}.get(pred, pred)     # offsets within one object
                    regs[i.id] = ('cmp', pred, a[2] - b[2], a[2], b[2], 64)
                    return True
                if pa and pb and i.x['pred'] in ('eq', 'ne') and 'null' in (a[1], b[1]):
                    other = a if b[1] == 'null' else b
                    if other[1] in ('buf', 'desc') or other[1].startswith(('g:', 'alloca:')):
                        regs[i.id] = Aff({}, int(i.x['pred'] == 'ne'))
                        return True
                raise AnalysisBroken('bufeval: comparison of unrelated pointers at %s' % i.where())
            return False
        if op in ('ptrtoint', 'inttoptr'):
            raise AnalysisBroken('bufeval: %s at %s' % (op, i.where()))
        if op == 'call':
            callee = i.callee or ''
            if callee.startswith(('llvm.dbg', 'llvm.lifetime', 'llvm.va_', 'llvm.stack')):
                return True
            if callee.startswith(('llvm.memcpy', 'llvm.memmove', 'llvm.memset')):
                a = self._val(regs, i.ops[0])
                n = self._val(regs, i.ops[2])
                if isinstance(a, tuple) and a[0] == 'ptr' and a[1] == 'buf' and isinstance(n, Aff):
                    ln = path.mem[BUFS + '.len']
                    lo, _ = path.interval(a[2])
                    _, hi = path.interval(a[2] + n - ln)
                    nlo, _ = path.interval(n)
                    ok = lo >= 0 and hi <= 0 and nlo >= 0
                    self.stores.append((i, ok, 'block write at offset %s of %s bytes' % (a[2], n)))
                    src = self._val(regs, i.ops[1]) if callee.startswith(('llvm.memcpy', 'llvm.memmove')) else None
                    endd = a[2] + n - ln          # 0 iff the block ends exactly at the end of the buffer
                    if path.interval(endd) == (0, 0) and path.interval(n)[0] >= 1:
                        val = None
                        if callee.startswith('llvm.memset'):
                            val = self._val(regs, i.ops[1])
                        elif isinstance(src, tuple) and src[0] == 'ptr':
                            cb = self.const_byte(src[1], src[2] + n - Aff({}, 1))
                            val = Aff({}, cb) if cb is not None else None
                        path.mem['bufstores'] = path.mem.get('bufstores', ()) + (('block-end', bool(isinstance(val, Aff) and val.is_const() and val.k == 0)),)
                    elif not (path.interval(endd)[1] < 0):
                        path.mem['bufstores'] = path.mem.get('bufstores', ()) + (('block-end', False),)
                    return True
                if isinstance(a, tuple) and a[0] == 'ptr' and a[1].startswith('alloca:'):
                    return True
                self.stores.append((i, False, 'block write through %r' % (a,)))
                return True
            tgt = self.mod.func(callee)
            if tgt is None or tgt.decl:
                # an external or indirect call: it must not receive a pointer into the buffer or the descriptor
                for o in i.ops:
                    v = self._val(regs, o) if not (isinstance(o, dict) and o.get('k') in ('func',)) else None
                    if isinstance(v, tuple) and v and v[0] == 'ptr' and v[1] in ('buf', 'desc'):
                        self.stores.append((i, False, 'the buffer / descriptor is handed to %s' % (callee or 'an indirect callee')))
                regs[i.id] = self.fresh_var(path, i.ty) if i.ty.startswith('i') and i.ty != 'i1' else None
                return True
            return False
        return False

def analyse_writer(mod, fn, fixed=None):
    """Evaluate fn (which takes the descriptor as a pointer argument) on every path from the invariant 0 <= pos <= len.
    Returns (stores, fieldwrites, exits) or None when the function cannot be evaluated to the end."""
    ev = BufEvaluator(mod)
    args = []
    ranges = {'len': (0, INT_MAX), 'pos': (0, INT_MAX), 'ovf': (0, 1)}
    path = Path(ranges)
    path.cons.append((Aff({'pos': 1, 'len': -1}), '<='))
    path.mem = {BUFS + '.start': P('buf', 0), BUFS + '.len': Aff({'len': 1}), BUFS + '.pos': Aff({'pos': 1}), BUFS + '.overflow': Aff({'ovf': 1})}
    ndesc = 0
    for a in fn.args:
        if a['ty'] == '%struct.' + BUFS + '*':
            args.append(P('desc', 0)); ndesc += 1
        elif a['ty'].endswith('*'):
            args.append(P('arg:' + a['id'], 0))
        elif a['ty'].startswith('i') and fixed and a['id'] in fixed:
            args.append(Aff({}, fixed[a['id']]))
        elif a['ty'].startswith('i'):
            w = int(a['ty'][1:])
            v = 'arg_' + a['id']
            path.ranges[v] = (-(1 << (w - 1)), (1 << (w - 1)) - 1)
            args.append(Aff({v: 1}))
        else:
            return None
    if ndesc != 1:
        return None
    out = []
    try:
        ev._run(fn, dict(zip([a['id'] for a in fn.args], args)), path, fn.entry.id, None, out, 0)
    except AnalysisBroken as e:
        return ('undecided', str(e))
    except (KeyError, TypeError, AttributeError, IndexError, RecursionError) as e:
        return ('undecided', 'construct outside the path evaluator (%s: %s)' % (type(e).__name__, e))
    exits = []
    for p2, rv in out:
        ln, ps = p2.mem[BUFS + '.len'], p2.mem[BUFS + '.pos']
        ok = isinstance(ps, Aff) and isinstance(ln, Aff) and p2.interval(ps)[0] >= 0 and p2.interval(ps - ln)[1] <= 0 and ln == Aff({'len': 1}) \
            and p2.mem[BUFS + '.start'] == P('buf', 0)
        exits.append(ok)
    # is the text NUL-terminated inside the buffer at each exit?  (paths with an empty buffer, or entered with the overflow flag already set -
    # terminated by the call that set it - have nothing to show)
    term = []
    for p2, rv in out:
        if p2.interval(Aff({'len': 1}))[1] <= 0 or p2.interval(Aff({'ovf': 1}))[0] >= 1:
            term.append(None)
        else:
            term.append(ev.terminated(p2))
    return ('ok', ev.stores, ev.fieldwrites, exits, term)

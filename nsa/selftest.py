"""Thorough tier, part 2: sensitivity and specificity of a check, measured on the CURRENT tree (still static: every variant is only
compiled to IR and analysed, no nsync code runs).

For property P:
  * every breaking change recorded for P (selftest/mutants/P-*.diff, seeded/P-*/patch.diff) is applied to a scratch copy of /repo's working
    tree (outside /repo and /verif, removed afterwards) and check P is run on it: it must report a violation;
  * every behaviour-preserving edit (selftest/benign/*.diff) is applied the same way: check P must stay silent (exit 0).
A patch that does not apply to the current tree (because /repo was edited) is skipped and listed.  The outcome is written into the evidence
file under coverage.selftest; it never changes the verdict about /repo itself (a missed variant is reported on stdout as SELFTEST-MISS /
SELFTEST-FALSE-ALARM so that it is visible, and counted in the evidence)."""
import glob, json, os, shutil, subprocess, sys, tempfile
from concurrent.futures import ThreadPoolExecutor

VERIF = os.path.dirname(os.path.dirname(os.path.abspath(__file__)))

def corpus(pid):
    mut = sorted(glob.glob(os.path.join(VERIF, 'selftest', 'mutants', pid + '-*.diff')))
    for d in sorted(glob.glob(os.path.join(VERIF, 'seeded', pid + '-*'))):
        p = os.path.join(d, 'patch.diff')
        m = os.path.join(d, 'meta.json')
        if not os.path.exists(p):
            continue
        if os.path.exists(m):
            try:
                meta = json.load(open(m))
                if pid not in meta.get('caught_by', [pid]):
                    continue          # recorded as not decidable by this check (see the meta file and DESIGN.md)
            except Exception:
                pass
        mut.append(p)
    ben = sorted(glob.glob(os.path.join(VERIF, 'selftest', 'benign', '*.diff')))
    return mut, ben

def run_variant(pid, repo, patch):
    scratch = tempfile.mkdtemp(prefix='nsa-st-')
    try:
        dst = os.path.join(scratch, 'repo')
        subprocess.run(['rsync', '-a', '--exclude', '_build', '--exclude', '.git', repo.rstrip('/') + '/', dst + '/'], check=True)
        r = subprocess.run(['patch', '-p1', '-s', '-d', dst, '-i', patch], stdout=subprocess.PIPE, stderr=subprocess.STDOUT, text=True)
        if r.returncode != 0:
            return {'patch': os.path.relpath(patch, VERIF), 'applies': False}
        env = dict(os.environ, NSA_EVIDENCE_DIR=os.path.join(scratch, 'evidence'), VERIF_TIER='quick')
        p = subprocess.run([sys.executable, '-m', 'nsa.check', pid, '--tier', 'quick', '--repo', dst], cwd=VERIF, stdout=subprocess.PIPE,
                           stderr=subprocess.STDOUT, text=True, env=env)
        first = next((l for l in p.stdout.splitlines() if l.startswith(pid + '.') or l.startswith('ANALYSIS-BROKEN')), '')
        return {'patch': os.path.relpath(patch, VERIF), 'applies': True, 'rc': p.returncode, 'first': first[:240]}
    finally:
        shutil.rmtree(scratch, ignore_errors=True)

def run(pid, repo, jobs=8):
    mut, ben = corpus(pid)
    with ThreadPoolExecutor(max_workers=jobs) as ex:
        rm = list(ex.map(lambda p: run_variant(pid, repo, p), mut))
        rb = list(ex.map(lambda p: run_variant(pid, repo, p), ben))
    out = {
        'breaking_variants': len(mut), 'breaking_applied': sum(1 for r in rm if r['applies']),
        'breaking_detected': sum(1 for r in rm if r['applies'] and r['rc'] == 1),
        'breaking_missed': [r for r in rm if r['applies'] and r['rc'] != 1],
        'benign_variants': len(ben), 'benign_applied': sum(1 for r in rb if r['applies']),
        'benign_silent': sum(1 for r in rb if r['applies'] and r['rc'] == 0),
        'benign_alarms': [r for r in rb if r['applies'] and r['rc'] != 0],
        'skipped_do_not_apply': [r['patch'] for r in rm + rb if not r['applies']],
        'detected': [{'patch': r['patch'], 'first': r['first']} for r in rm if r['applies'] and r['rc'] == 1],
    }
    return out

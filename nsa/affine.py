"""Engine E4: exact arithmetic on (nearly) straight-line integer code.

SSA values are affine forms over the function's inputs (plus quotient/remainder variables introduced by division by a constant) with integer
coefficients; each branch outcome adds a linear constraint, so a function yields a finite set of paths, each with a result in closed form.
Every arithmetic instruction is checked not to wrap in its type under the input ranges and the path constraints.  No instruction is executed:
the evaluation is symbolic and total over the declared input ranges."""
from . import ir as IR
from .report import AnalysisBroken

class Inexact(Exception):
    """the code computes with floating point: a double has 53 bits of mantissa, so it cannot be exact over the 64-bit range of nsync_time"""
    def __init__(self, inst):
        Exception.__init__(self, 'floating-point %s at %s' % (inst.op, inst.where()))
        self.inst = inst

class Aff:
    __slots__ = ('c', 'k')
    def __init__(self, c=None, k=0):
        self.c = {v: x for v, x in (c or {}).items() if x != 0}
        self.k = k
    def __add__(self, o):
        o = aff(o)
        c = dict(self.c)
        for v, x in o.c.items():
            c[v] = c.get(v, 0) + x
        return Aff(c, self.k + o.k)
    def __neg__(self):
        return Aff({v: -x for v, x in self.c.items()}, -self.k)
    def __sub__(self, o):
        return self + (-aff(o))
    def scale(self, m):
        return Aff({v: x * m for v, x in self.c.items()}, self.k * m)
    def is_const(self):
        return not self.c
    def same_linear(self, o):
        return self.c == o.c
    def neg_linear(self, o):
        return self.c == {v: -x for v, x in o.c.items()}
    def key(self):
        return (tuple(sorted(self.c.items())), self.k)
    def __eq__(self, o):
        return isinstance(o, Aff) and self.c == o.c and self.k == o.k
    def __hash__(self):
        return hash(self.key())
    def __repr__(self):
        t = ['%+d*%s' % (x, v) for v, x in sorted(self.c.items())]
        return ' '.join(t + ['%+d' % self.k]) if t else str(self.k)

def aff(x):
    return x if isinstance(x, Aff) else Aff({}, int(x))

class Path:
    def __init__(self, ranges):
        self.ranges = dict(ranges)      # var -> (lo, hi)
        self.cons = []                  # (Aff, op) meaning Aff op 0, op in '<', '<=', '>', '>=', '==', '!='
        self.issues = []
        self.rel = {}                   # input Aff key -> replacement Aff (x = c*q + r)
        self.divcache = {}
        self.mem = {}                   # abstract memory cells of a subclass of the evaluator (nsa/bufeval.py)
    def copy(self):
        p = Path(self.ranges)
        p.mem = dict(self.mem)
        p.cons = list(self.cons)
        p.issues = list(self.issues)
        p.rel = dict(self.rel)
        p.divcache = dict(self.divcache)
        return p
    def interval(self, a, _norel=False):
        if not _norel and self.rel:
            # x = d*q + r is known for a divided value x: the same expression written over (q, r) may have a tighter interval
            # (x - d*(x/d) is just r); intersect
            lo, hi = self.interval(a, True)
            for _, (x, repl) in list(self.rel.items()):
                if len(x.c) == 1 and x.k == 0:
                    (v, cx), = x.c.items()
                    if cx == 1 and v in a.c:
                        m = a.c[v]
                        a2 = a - Aff({v: m}) + repl.scale(m)
                        l2, h2 = self.interval(a2, True)
                        lo, hi = max(lo, l2), min(hi, h2)
            return lo, hi
        lo = hi = a.k
        for v, x in a.c.items():
            l, h = self.ranges[v]
            if x > 0:
                lo += x * l; hi += x * h
            else:
                lo += x * h; hi += x * l
        for f, op in self.cons:
            # a = f + d   or   a = -f + d
            for sign in (1, -1):
                g = f if sign == 1 else -f
                if a.same_linear(g):
                    d = a.k - g.k
                    # constraint on f: f op 0  ->  on g = sign*f
                    o = op
                    if sign == -1:
                        o = {'<': '>', '<=': '>=', '>': '<', '>=': '<=', '==': '==', '!=': '!='}[op]
                    if o == '<': hi = min(hi, d - 1)
                    elif o == '<=': hi = min(hi, d)
                    elif o == '>': lo = max(lo, d + 1)
                    elif o == '>=': lo = max(lo, d)
                    elif o == '==': lo = max(lo, d); hi = min(hi, d)
        # disequalities trim an end point of the interval (x != d with x in [d, hi] gives [d+1, hi]); repeat until stable
        changed = True
        while changed and lo <= hi:
            changed = False
            for f, op in self.cons:
                if op != '!=':
                    continue
                for g in (f, -f):
                    if a.same_linear(g):
                        d = a.k - g.k
                        if lo == d:
                            lo += 1; changed = True
                        if hi == d and lo <= hi:
                            hi -= 1; changed = True
        return lo, hi
    def feasible(self):
        for f, op in self.cons:
            lo, hi = self.interval(f)
            if lo > hi:
                return False
        return True

def type_range(ty, unsigned):
    w = int(ty[1:])
    if unsigned:
        return 0, (1 << w) - 1
    return -(1 << (w - 1)), (1 << (w - 1)) - 1

class Evaluator:
    def __init__(self, mod, unsigned_types=('i32',), inline=()):
        self.mod = mod
        self.unsigned_types = unsigned_types
        self.inline = set(inline)
        self.fresh = 0
    def run(self, fn, args, ranges):
        """args: list of Aff (one per IR argument); returns list of (Path, result) where result is an Aff, a tuple of results, or None"""
        out = []
        self._run(fn, dict(zip([a['id'] for a in fn.args], args)), Path(ranges), fn.entry.id, None, out, 0)
        return out
    def hook(self, fn, regs, path, i):
        """extension point: a subclass may interpret an instruction itself (return True)"""
        return False
    def _val(self, regs, ref):
        if isinstance(ref, str):
            if ref not in regs:
                raise AnalysisBroken('affine: use of an unevaluated value %s' % ref)
            return regs[ref]
        if IR.is_int(ref):
            return Aff({}, IR.ival(ref))
        if ref.get('k') == 'undef':
            return None
        raise AnalysisBroken('affine: unsupported constant operand %r' % ref)
    def _check(self, path, inst, a, unsigned=None):
        if not isinstance(a, Aff) or not inst.ty.startswith('i') or inst.ty == 'i1':
            return
        u = inst.ty in self.unsigned_types if unsigned is None else unsigned
        lo, hi = path.interval(a)
        tl, th = type_range(inst.ty, u)
        if lo < tl or hi > th:
            path.issues.append((inst, 'the %s %s at %s can wrap around: its value ranges over [%d, %d], outside %s %s' % (inst.ty, inst.op, inst.where(), lo, hi, 'unsigned' if u else 'signed', inst.ty)))
    def _run(self, fn, regs, path, bid, prev, out, depth, start=0):
        if depth > 64:
            raise AnalysisBroken('affine: path too long in %s (loop?)' % fn.name)
        blk = fn.bmap[bid]
        regs = dict(regs)
        phis = {}
        if start == 0:
            for i in blk.insts:
                if i.op == 'phi':
                    for v, pb in i.ops:
                        if pb == prev:
                            phis[i.id] = self._val(regs, v)
            regs.update(phis)
        for i in blk.insts[start:]:
            op = i.op
            if op in ('dbg', 'phi'):
                continue
            if self.hook(fn, regs, path, i):
                continue
            if op in ('add', 'sub'):
                a, b = self._val(regs, i.ops[0]), self._val(regs, i.ops[1])
                r = a + b if op == 'add' else a - b
                self._check(path, i, r, unsigned=None if not (self._is_bool(a) and self._is_bool(b)) else False)
                regs[i.id] = r
            elif op == 'mul':
                a, b = self._val(regs, i.ops[0]), self._val(regs, i.ops[1])
                if a.is_const():
                    r = b.scale(a.k)
                elif b.is_const():
                    r = a.scale(b.k)
                else:
                    raise AnalysisBroken('affine: non-linear multiplication at %s' % i.where())
                self._check(path, i, r)
                regs[i.id] = r
            elif op in ('udiv', 'urem', 'sdiv', 'srem'):
                a, b = self._val(regs, i.ops[0]), self._val(regs, i.ops[1])
                if not b.is_const() or b.k <= 0:
                    raise AnalysisBroken('affine: division by a non-constant at %s' % i.where())
                if a.is_const() and a.k >= 0:
                    regs[i.id] = Aff({}, a.k // b.k if op in ('udiv', 'sdiv') else a.k % b.k)          # constant folding
                    continue
                lo, hi = path.interval(a)
                if lo < 0:
                    raise AnalysisBroken('affine: division of a possibly negative value at %s' % i.where())
                key = (a.key(), b.k)
                if key not in path.divcache:
                    self.fresh += 1
                    q, r = 'q%d' % self.fresh, 'r%d' % self.fresh
                    path.ranges[q] = (lo // b.k, hi // b.k)
                    path.ranges[r] = (0, b.k - 1)
                    path.divcache[key] = (q, r)
                    path.rel[a.key()] = (a, Aff({q: b.k, r: 1}, 0))
                q, r = path.divcache[key]
                regs[i.id] = Aff({q: 1}) if op in ('udiv', 'sdiv') else Aff({r: 1})
            elif op in ('zext', 'sext', 'trunc', 'bitcast', 'freeze'):
                a = self._val(regs, i.ops[0])
                if isinstance(a, tuple) and a and a[0] == 'cmp':
                    # a comparison used as an integer: case split on its outcome
                    for sense in (True, False):
                        for p2 in self._assume_all(path, a, sense):
                            r2 = dict(regs)
                            r2[i.id] = Aff({}, (1 if op == 'zext' else -1) if sense else 0)
                            self._continue(fn, r2, p2, blk, i.idx + 1, out, depth + 1)
                    return
                if op == 'zext' and isinstance(a, Aff) and not self._is_bool(a):
                    lo, hi = path.interval(a)
                    if lo < 0:
                        path.issues.append((i, 'zero-extension of a possibly negative value at %s' % i.where()))
                if op == 'trunc' and isinstance(a, Aff):
                    self._check(path, i, a)
                regs[i.id] = a
            elif op == 'icmp':
                a, b = self._val(regs, i.ops[0]), self._val(regs, i.ops[1])
                r0 = i.ops[0]
                ty0 = fn.imap[r0].ty if isinstance(r0, str) and r0 in fn.imap else next((x['ty'] for x in fn.args if x['id'] == r0), None) if isinstance(r0, str) else ('i%d' % r0.get('w', 64) if isinstance(r0, dict) else None)
                w = int(ty0[1:]) if isinstance(ty0, str) and ty0.startswith('i') and ty0[1:].isdigit() else 64
                regs[i.id] = ('cmp', i.x['pred'], a - b, a, b, w)
            elif op == 'insertvalue':
                base = self._val(regs, i.ops[0]) if not (isinstance(i.ops[0], dict) and i.ops[0].get('k') == 'undef') else None
                lst = list(base) if isinstance(base, tuple) else [None, None]
                idx = i.x['idx'][0]
                while len(lst) <= idx:
                    lst.append(None)
                lst[idx] = self._val(regs, i.ops[1])
                regs[i.id] = tuple(lst)
            elif op == 'extractvalue':
                a = self._val(regs, i.ops[0])
                regs[i.id] = a[i.x['idx'][0]]
            elif op == 'call':
                callee = i.callee or ''
                if callee.startswith('llvm.dbg') or callee.startswith('llvm.lifetime'):
                    continue
                tgt = self.mod.func(callee)
                if tgt is not None and not tgt.decl and depth < 48:
                    # any defined callee is evaluated in place (a helper extracted from the arithmetic is part of it); a callee that is
                    # not straight-line arithmetic is reported by the instruction that is outside the fragment
                    args = [self._val(regs, o) for o in i.ops]
                    sub = []
                    self._run(tgt, dict(zip([a['id'] for a in tgt.args], args)), path, tgt.entry.id, None, sub, depth + 1)
                    # continue this block once per callee path
                    rest = blk.insts[i.idx + 1:]
                    for p2, rv in sub:
                        r2 = dict(regs)
                        r2[i.id] = rv
                        self._continue(fn, r2, p2, blk, i.idx + 1, out, depth + 1)
                    return
                raise AnalysisBroken('affine: call to %s at %s is outside the straight-line arithmetic fragment' % (callee or 'an indirect target', i.where()))
            elif op == 'select':
                c = self._val(regs, i.ops[0])
                for sense, ref in ((True, i.ops[1]), (False, i.ops[2])):
                    for p2 in self._assume_all(path, c, sense):
                        r2 = dict(regs)
                        r2[i.id] = self._val(regs, ref)
                        self._continue(fn, r2, p2, blk, i.idx + 1, out, depth + 1)
                return
            elif op == 'br':
                tg = i.x['targets']
                if len(tg) == 1:
                    self._run(fn, regs, path, tg[0], bid, out, depth + 1)
                    return
                c = self._val(regs, i.ops[0])
                for sense, t in ((True, tg[0]), (False, tg[1])):
                    for p2 in self._assume_all(path, c, sense):
                        self._run(fn, regs, p2, t, bid, out, depth + 1)
                return
            elif op == 'ret':
                out.append((path, self._val(regs, i.ops[0]) if i.ops else None))
                return
            elif op == 'load' and self._const_load(i) is not None:
                regs[i.id] = Aff({}, self._const_load(i))          # a field of a constant global (e.g. nsync_time_no_deadline)
            elif op == 'getelementptr' and isinstance(i.ops[0], dict):
                regs[i.id] = None          # address of a constant global; only used by a constant load
            elif op in ('alloca', 'store', 'load', 'getelementptr'):
                raise AnalysisBroken('affine: memory access at %s (run sroa first / not straight-line arithmetic)' % i.where())
            elif op in ('and', 'or', 'xor') and i.ty == 'i1':
                a, b = self._val(regs, i.ops[0]), self._val(regs, i.ops[1])
                regs[i.id] = ('bool', op, a, b)
            elif op in ('sitofp', 'uitofp', 'fptosi', 'fptoui', 'fadd', 'fsub', 'fmul', 'fdiv', 'frem', 'fcmp', 'fpext', 'fptrunc', 'fneg'):
                raise Inexact(i)
            else:
                raise AnalysisBroken('affine: unsupported instruction %s at %s' % (op, i.where()))
    def _const_load(self, i):
        """integer value loaded from a constant global by a constant address expression, or None"""
        ref = i.ops[0]
        off = 0
        while isinstance(ref, dict) and ref.get('k') == 'cexpr' and ref.get('op') in ('bitcast', 'getelementptr'):
            if ref['op'] == 'getelementptr':
                if ref.get('coff') is None:
                    return None
                off += ref['coff']
            ref = ref['ops'][0]
        if not (isinstance(ref, dict) and ref.get('k') == 'global'):
            return None
        g = self.mod.globals.get(ref['n'])
        if not g or not g.get('const') or 'init' not in g:
            return None
        init = g['init']
        w = int(i.ty[1:]) // 8 if i.ty.startswith('i') and i.ty[1:].isdigit() else None
        if w is None:
            return None
        if init.get('k') == 'zero':
            return 0
        if init.get('k') == 'agg':
            pos = 0
            for e in init['elts']:
                ew = (e.get('w', 64) // 8) if e.get('k') == 'int' else 8
                if pos == off and e.get('k') == 'int' and ew == w:
                    v = e['v']
                    return v - (1 << (8 * w)) if v >> (8 * w - 1) else v
                pos += ew
        return None
    def _continue(self, fn, regs, path, blk, idx, out, depth):
        """resume a block after instruction idx-1 (used after an inlined call / select)"""
        self._run(fn, regs, path, blk.id, None, out, depth, start=idx)
    @staticmethod
    def _is_bool(a):
        return isinstance(a, Aff) and a.is_const() and a.k in (0, 1)
    def _assume_all(self, path, c, sense):
        """paths (possibly several) on which condition c has the given truth value.  An unsigned comparison of values that may be negative as
        signed numbers is split on the signs: a negative value compares as value + 2^width"""
        if isinstance(c, tuple) and c and c[0] == 'cmp' and c[1][0] == 'u' and len(c) >= 6:
            pred, a, b, w = c[1], c[3], c[4], c[5]
            ia, ib = path.interval(a), path.interval(b)
            if ia[0] < 0 or ib[0] < 0:
                out = []
                M = 1 << w
                for sa in ((0,) if ia[0] >= 0 else (0, 1)):
                    for sb in ((0,) if ib[0] >= 0 else (0, 1)):
                        p2 = path
                        for x, neg in ((a, sa), (b, sb)):
                            if p2 is None or x.is_const():
                                if x.is_const() and ((x.k < 0) != bool(neg)):
                                    p2 = None
                                continue
                            if path.interval(x)[0] >= 0 and not neg:
                                continue
                            q = p2.copy()
                            q.cons.append((x, '<' if neg else '>='))
                            p2 = q if q.feasible() else None
                        if p2 is None:
                            continue
                        a2 = a + Aff({}, M) if sa else a
                        b2 = b + Aff({}, M) if sb else b
                        r = self._assume(p2, ('cmp', 's' + pred[1:], a2 - b2), sense)
                        if r is not None:
                            out.append(r)
                return out
        r = self._assume(path, c, sense)
        return [r] if r is not None else []
    def _assume(self, path, c, sense):
        """path extended with condition c == sense, or None if infeasible"""
        if isinstance(c, Aff):
            if c.is_const():
                return path if bool(c.k) == sense else None
            raise AnalysisBroken('affine: branch on a non-boolean value')
        if c[0] == 'cmp':
            pred, d = c[1], c[2]
            unsigned = pred[0] == 'u'
            p = pred[1:] if pred[0] in 'su' else pred
            if unsigned:
                lo, hi = path.interval(d)      # only valid when both operands are known non-negative; checked by caller ranges
            op = {'gt': '>', 'ge': '>=', 'lt': '<', 'le': '<=', 'eq': '==', 'ne': '!='}[p]
            if not sense:
                op = {'>': '<=', '>=': '<', '<': '>=', '<=': '>', '==': '!=', '!=': '=='}[op]
            lo, hi = path.interval(d)
            # decided?
            truth = None
            if op == '>': truth = True if lo > 0 else (False if hi <= 0 else None)
            elif op == '>=': truth = True if lo >= 0 else (False if hi < 0 else None)
            elif op == '<': truth = True if hi < 0 else (False if lo >= 0 else None)
            elif op == '<=': truth = True if hi <= 0 else (False if lo > 0 else None)
            elif op == '==': truth = True if lo == hi == 0 else (False if lo > 0 or hi < 0 else None)
            elif op == '!=': truth = True if lo > 0 or hi < 0 else (False if lo == hi == 0 else None)
            if truth is True:
                return path
            if truth is False:
                return None
            p2 = path.copy()
            if op == '!=':
                # split is not expressible as one interval constraint; keep as is (only used for feasibility)
                p2.cons.append((d, '!='))
            else:
                p2.cons.append((d, op))
            return p2 if p2.feasible() else None
        if c[0] == 'bool':
            raise AnalysisBroken('affine: compound boolean condition')
        raise AnalysisBroken('affine: unsupported condition')

def bool_value(path, c):
    """value of an icmp result used as an integer (zext i1): returns 0/1 if decided on this path, else None"""
    if isinstance(c, Aff):
        return c
    return None

"""python3-vt -m nsa.replay <replay.json>: re-run the check that produced the replay file on the current tree and show
whether the same rule instance still fails."""
import json, sys, subprocess, os
def main():
    d = json.load(open(sys.argv[1]))
    print('replaying property %s rule %s at %s' % (d['property'], d['rule'], d['where']))
    print(json.dumps(d.get('witness', {}), indent=1, default=str)[:4000])
    env = dict(os.environ, NSA_EVIDENCE_DIR='/tmp/nsa-replay-evidence')
    p = subprocess.run(['python3-vt', '-m', 'nsa.check', d['property']], stdout=subprocess.PIPE, text=True, env=env,
                       cwd=os.path.dirname(os.path.dirname(os.path.abspath(__file__))))
    hit = [l for l in p.stdout.splitlines() if l.startswith(d['rule']) and d['site'].split('/')[0] in l]
    import shutil; shutil.rmtree('/tmp/nsa-replay-evidence', ignore_errors=True)
    if hit:
        print('STILL FAILS:'); print('\n'.join(hit)); return 1
    print('no longer reported on the current tree'); return 0
sys.exit(main())

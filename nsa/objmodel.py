"""Lockset interpretation (engine E6) of notes, counters, the cancellable semaphore wait and nsync_wait_n."""
from .lockeng import LockEngine
from .symex import Ptr, TOP
from .report import AnalysisBroken

FILES = ('internal/note.c', 'internal/counter.c', 'internal/sem_wait.c', 'internal/wait.c')
WATCH = ('nsync_note_s_.', 'nsync_counter_s_.', 'nsync_waiter_s.waiting')
READY = ('nsync_note_s_.notified', 'nsync_counter_s_.value')
LISTS = ('nsync_note_s_.waiters', 'nsync_note_s_.children', 'nsync_counter_s_.waiters')
MUTEX_OF = {'nsync_note_s_': 'nsync_note_s_.note_mu', 'nsync_counter_s_': 'nsync_counter_s_.counter_mu'}

N = Ptr('arg:n', ())
PARENT = Ptr('arg:parent', ())
C = Ptr('arg:c', ())
NW = Ptr('arg:nw', ())
W = Ptr('arg:w', ())
DL_S, DL_NS = Ptr('tok:dl_s', ()), Ptr('tok:dl_ns', ())      # the caller's abs_deadline of the cancellable wait, as opaque tokens
DELTA = Ptr('tok:delta', ())          # the delta argument of nsync_counter_add as an opaque integer token

def table(mod, gname):
    g = mod.globals.get(gname)
    if not g or g.get('init', {}).get('k') != 'agg':
        raise AnalysisBroken('waitable table %s not found' % gname)
    out = []
    for e in g['init']['elts']:
        if e.get('k') != 'func':
            raise AnalysisBroken('waitable table %s has a non-function slot' % gname)
        out.append(e['n'])
    return out

_CACHE = {}

def analyse(ctx):
    key = ctx.facts
    if key in _CACHE:
        return _CACHE[key]
    mod = ctx.mod('C')
    eng = LockEngine(mod, FILES, WATCH, READY, LISTS, MUTEX_OF)
    E = []
    def add(label, fn, args, nn, ghost=None):
        f = mod.func(fn)
        if f is None or f.decl:
            raise AnalysisBroken('entry point %s not found' % fn)
        E.append((label, fn, args, set(nn), ghost or {}))
    add('nsync_note_new[root]', 'nsync_note_new', [0, TOP, TOP], [])
    add('nsync_note_new[child]', 'nsync_note_new', [PARENT, TOP, TOP], [PARENT])
    add('nsync_note_free', 'nsync_note_free', [N], [N])
    add('nsync_note_notify', 'nsync_note_notify', [N], [N])
    add('nsync_note_is_notified', 'nsync_note_is_notified', [N], [N])
    add('nsync_note_expiry', 'nsync_note_expiry', [N], [N])
    nt = table(mod, 'nsync_note_waitable_funcs')
    for role, fn in zip(('ready_time', 'enqueue', 'dequeue'), nt):
        add('note %s (%s)' % (role, fn), fn, [N, NW], [N, NW])
    add('nsync_counter_new', 'nsync_counter_new', [TOP], [])
    add('nsync_counter_free', 'nsync_counter_free', [C], [C])
    add('nsync_counter_add', 'nsync_counter_add', [C, DELTA], [C])
    add('nsync_counter_value', 'nsync_counter_value', [C], [C])
    ct = table(mod, 'nsync_counter_waitable_funcs')
    for role, fn in zip(('ready_time', 'enqueue', 'dequeue'), ct):
        add('counter %s (%s)' % (role, fn), fn, [C, NW], [C, NW])
    NOTE = Ptr('arg:cancel_note', ())
    add('nsync_sem_wait_with_cancel_', 'nsync_sem_wait_with_cancel_', [W, DL_S, DL_NS, NOTE], [W, NOTE])
    runs = []
    for label, fn, args, nn, ghost in E:
        eng.track_writes = label.startswith(('nsync_note_new', 'nsync_counter_new'))
        eng.value_token_fields = ('nsync_counter_s_.value',) if label == 'nsync_counter_add' else ()
        eng.timed_p_outcomes = (0, ctx.probe['ETIMEDOUT']) if label == 'nsync_sem_wait_with_cancel_' else ()
        # inside the cancellable wait the notifier (reached through the lazy expiry and through the explicit notify on expiry) is a callee that
        # takes and releases the note's mutex; its body is judged by its own entries (nsync_note_notify, nsync_note_is_notified)
        eng.entry_opaque = ('nsync_note_notify', 'nsync_note_notified_deadline_') if label == 'nsync_sem_wait_with_cancel_' else ()      # C19.R3 (constructors only: keeps other state spaces unchanged)
        exits = eng.run(fn, args, nn=nn, ghost=ghost, label=label)
        runs.append((label, fn, exits))
    _CACHE[key] = (eng, runs)
    return eng, runs

"""Engine E5: list-segment shape analysis for internal/dll.c.

Abstract heaps are graphs whose vertices are *named nodes* (single list elements) and *segments* (one or more elements that are internally
well linked and are never written).  next/prev of a node are explicit edges; a segment has an edge out of its last element (next) and out
of its first element (prev).  Loading a link that leads into a segment materialises the element at that end (case split: the segment had
exactly one element / more than one), so every pointer the code holds is a named node.  The mutators are loop-free, so each
(operation, precondition shape) pair is interpreted once; because segments stand for every length >= 1 the verdict holds for all lengths."""
from . import ir as IR
from .report import AnalysisBroken

NEXT, PREV, CONT = 'nsync_dll_element_s_.next', 'nsync_dll_element_s_.prev', 'nsync_dll_element_s_.container'

class Heap:
    def __init__(self):
        self.nxt = {}
        self.prv = {}
        self.seg = set()
        self.pieces = {}      # original item name -> ordered list of current vertices that partition it
        self.fresh = 0
        self.written = set()
    def copy(self):
        h = Heap()
        h.nxt, h.prv, h.seg = dict(self.nxt), dict(self.prv), set(self.seg)
        h.pieces = {k: list(v) for k, v in self.pieces.items()}
        h.fresh = self.fresh
        h.written = set(self.written)
        return h
    def add_ring(self, items):
        """items: list of names; names starting with 'S' are segments"""
        n = len(items)
        for k, it in enumerate(items):
            self.nxt[it] = items[(k + 1) % n]
            self.prv[it] = items[(k - 1) % n]
            if it.startswith('S'):
                self.seg.add(it)
            self.pieces[it] = [it]
    def _origin(self, v):
        for o, ps in self.pieces.items():
            if v in ps:
                return o
        return None
    def materialise(self, s, front):
        """alternatives (heap, node) for naming the first (front) or last element of segment s.
        Edge convention: nxt[x] = y means the next pointer of x's last element points at y's first element; prv[y] = x means the
        prev pointer of y's first element points at x's last element."""
        out = []
        o = self._origin(s)
        for single in (True, False):
            h = self.copy()
            h.fresh += 1
            f = '%s.%s%d' % (o, 'f' if front else 'l', h.fresh)
            ps = h.pieces[o]
            k = ps.index(s)
            if single:
                # the segment is exactly the element f: rename s -> f everywhere
                h.nxt[f], h.prv[f] = h.nxt.pop(s), h.prv.pop(s)
                for m in (h.nxt, h.prv):
                    for kk, v in list(m.items()):
                        if v == s:
                            m[kk] = f
                h.seg.discard(s)
                ps[k] = f
            elif front:
                # s = f . s'   (s keeps naming the rest)
                old_prev = h.prv[s]
                for kk, v in list(h.nxt.items()):
                    if v == s:
                        h.nxt[kk] = f          # pointers to the first element now reach f (also the wrap-around of a lone segment)
                h.prv[f] = old_prev
                h.nxt[f] = s
                h.prv[s] = f
                ps.insert(k, f)
            else:
                # s = s' . f
                old_next = h.nxt[s]
                for kk, v in list(h.prv.items()):
                    if v == s:
                        h.prv[kk] = f          # pointers to the last element now reach f
                h.nxt[f] = old_next
                h.prv[f] = s
                h.nxt[s] = f
                ps.insert(k + 1, f)
            out.append((h, f))
        return out
    def ring_from(self, start, limit=64):
        """(sequence of vertices following next from start, well-formed?)"""
        seq = [start]
        v = start
        ok = True
        while True:
            n = self.nxt.get(v)
            if n is None:
                return seq, False
            if self.prv.get(n) != v:
                ok = False
            if n == start:
                break
            if n in seq or len(seq) > limit:
                return seq, False
            seq.append(n)
            v = n
        return seq, ok

def expand(heap, items):
    out = []
    for it in items:
        out += heap.pieces.get(it, [it])
    return out

TOPI = ('top',)          # an integer the abstract heap does not determine (a counter widened after a few iterations)

class ShapeInterp:
    def __init__(self, mod):
        self.mod = mod
        self.abandoned = 0          # paths given up at the depth bound after branching on an unknown integer
    def field(self, fn, ref):
        i = fn.imap.get(ref) if isinstance(ref, str) else None
        if i is None or i.op != 'getelementptr':
            raise AnalysisBroken('shape: address %r is not a field of a list element' % (ref,))
        steps = self.mod.gep_fields(i)
        if len(steps) != 1 or steps[0][0] != 'f':
            raise AnalysisBroken('shape: unexpected address computation at %s' % i.where())
        return i.ops[0], steps[0][1]
    def call(self, fname, args, heap):
        """returns list of (heap, return value)"""
        fn = self.mod.func(fname)
        if fn is None or fn.decl:
            raise AnalysisBroken('shape: %s not found' % fname)
        out = []
        self._run(fn, dict(zip([a['id'] for a in fn.args], args)), heap, fn.entry.id, None, 0, out, 0)
        return out
    def _val(self, regs, ref):
        if isinstance(ref, str):
            return regs[ref]
        if IR.is_null(ref):
            return None
        if IR.is_int(ref):
            return ('int', IR.ival(ref))
        raise AnalysisBroken('shape: unsupported operand %r' % (ref,))
    def _run(self, fn, regs, heap, bid, prev, start, out, depth, topbr=0):
        if depth > 200:
            if topbr:
                # a loop steered by an integer the heap does not determine (a bounded search, a counter): this path keeps unrolling list
                # segments; it is given up - the caller reports the analysis as undecided unless another path already shows a violation
                self.abandoned += 1
                return
            raise AnalysisBroken('shape: %s does not terminate on the abstract heap (loop?)' % fn.name)
        blk = fn.bmap[bid]
        regs = dict(regs)
        if start == 0:
            ph = {}
            for i in blk.insts:
                if i.op == 'phi':
                    for v, pb in i.ops:
                        if pb == prev:
                            ph[i.id] = self._val(regs, v)
            regs.update(ph)
        for i in blk.insts[start:]:
            op = i.op
            if op in ('add', 'sub', 'mul', 'and', 'or', 'shl', 'lshr', 'ashr', 'sext') or (op == 'xor' and i.ty != 'i1'):
                a = self._val(regs, i.ops[0])
                b = self._val(regs, i.ops[1]) if len(i.ops) > 1 else None
                if isinstance(a, tuple) and a[0] == 'int' and (b is None or (isinstance(b, tuple) and b[0] == 'int')) and depth < 24:
                    k = {'add': lambda: a[1] + b[1], 'sub': lambda: a[1] - b[1], 'mul': lambda: a[1] * b[1], 'and': lambda: a[1] & b[1], 'or': lambda: a[1] | b[1],
                         'shl': lambda: a[1] << b[1], 'lshr': lambda: a[1] >> b[1], 'ashr': lambda: a[1] >> b[1], 'sext': lambda: a[1], 'xor': lambda: a[1] ^ b[1]}[op]()
                    regs[i.id] = ('int', k)
                else:
                    regs[i.id] = TOPI          # beyond a few iterations a counter is "some integer"
                continue
            if op in ('dbg', 'phi', 'getelementptr', 'bitcast'):
                if op == 'bitcast':
                    regs[i.id] = self._val(regs, i.ops[0])
                continue
            if op == 'load':
                base, fld = self.field(fn, i.ops[0])
                n = self._val(regs, base)
                if n is None:
                    out.append((heap, ('error', 'NULL dereference at %s' % i.where())))
                    return
                if fld == CONT:
                    regs[i.id] = ('container', n)
                    continue
                m = heap.nxt if fld == NEXT else heap.prv
                if n not in m:
                    raise AnalysisBroken('shape: load through unknown element %r at %s' % (n, i.where()))
                t = m[n]
                if t in heap.seg:
                    for h2, f in heap.materialise(t, front=(fld == NEXT)):
                        r2 = dict(regs)
                        r2[i.id] = f
                        self._run(fn, r2, h2, bid, prev, i.idx + 1, out, depth + 1, topbr)
                    return
                regs[i.id] = t
            elif op == 'store':
                base, fld = self.field(fn, i.ops[1])
                n = self._val(regs, base)
                v = self._val(regs, i.ops[0])
                if n is None:
                    out.append((heap, ('error', 'NULL dereference at %s' % i.where())))
                    return
                heap = heap.copy()
                if fld == CONT:
                    heap.written.add((n, 'container'))
                    continue
                (heap.nxt if fld == NEXT else heap.prv)[n] = v
                heap.written.add((n, fld))
            elif op == 'icmp' and (self._val(regs, i.ops[0]) == TOPI or self._val(regs, i.ops[1]) == TOPI):
                regs[i.id] = TOPI
            elif op == 'icmp' and i.x['pred'] not in ('eq', 'ne') and all(isinstance(self._val(regs, o), tuple) and self._val(regs, o)[0] == 'int' for o in i.ops[:2]):
                a, b = self._val(regs, i.ops[0])[1], self._val(regs, i.ops[1])[1]
                regs[i.id] = ('int', int({'slt': a < b, 'sle': a <= b, 'sgt': a > b, 'sge': a >= b, 'ult': a < b, 'ule': a <= b, 'ugt': a > b, 'uge': a >= b}[i.x['pred']]))
            elif op == 'icmp':
                a, b = self._val(regs, i.ops[0]), self._val(regs, i.ops[1])
                eq = a == b
                regs[i.id] = ('int', int(eq if i.x['pred'] == 'eq' else not eq))
                if i.x['pred'] not in ('eq', 'ne'):
                    raise AnalysisBroken('shape: ordered pointer comparison at %s' % i.where())
            elif op in ('zext', 'trunc', 'xor'):
                a = self._val(regs, i.ops[0])
                if a == TOPI:
                    regs[i.id] = TOPI
                elif op == 'xor':
                    regs[i.id] = ('int', a[1] ^ 1)
                else:
                    regs[i.id] = a
            elif op == 'br':
                tg = i.x['targets']
                if len(tg) == 1:
                    self._run(fn, regs, heap, tg[0], bid, 0, out, depth + 1, topbr)
                else:
                    c = self._val(regs, i.ops[0])
                    if c == TOPI:
                        for t in tg:
                            self._run(fn, regs, heap, t, bid, 0, out, depth + 1, 1)
                    else:
                        self._run(fn, regs, heap, tg[0] if c[1] & 1 else tg[1], bid, 0, out, depth + 1, topbr)
                return
            elif op == 'call':
                callee = i.callee or ''
                if callee.startswith('llvm.'):
                    continue
                args = [self._val(regs, o) for o in i.ops]
                for h2, rv in self.call(callee, args, heap):
                    if isinstance(rv, tuple) and rv and rv[0] == 'error':
                        out.append((h2, rv))
                        continue
                    r2 = dict(regs)
                    r2[i.id] = rv
                    self._run(fn, r2, h2, bid, prev, i.idx + 1, out, depth + 1, topbr)
                return
            elif op == 'ret':
                out.append((heap, self._val(regs, i.ops[0]) if i.ops else None))
                return
            elif op == 'select':
                c = self._val(regs, i.ops[0])
                regs[i.id] = self._val(regs, i.ops[1] if c[1] & 1 else i.ops[2])
            else:
                raise AnalysisBroken('shape: unsupported instruction %s at %s' % (op, i.where()))

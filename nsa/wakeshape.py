"""CFG shape rules shared by C02/C04/C08/C10: wake loops drain their list, sleepers re-check their flag."""
from . import ir as IR, util
from .cfg import cfg_of
from .report import Violation

WAITING = 'nsync_waiter_s.waiting'

def wake_stores(mod, fn):
    """stores of constant 0 to nsync_waiter_s.waiting (atomic), i.e. wake-ups"""
    out = []
    for s in util.atomic_sites(mod):
        if s.fn is fn and s.kind == 'store' and IR.is_int(s.ops[0]) and IR.ival(s.ops[0]) == 0:
            ac = util.addr_class(mod, fn, s.addr)
            # a waker reaches the record through a list element (container pointer loaded from memory); a thread resetting
            # its own record reaches it through its own waiter struct / parameter / stack array
            if util.last_field(ac) == WAITING and ac['kind'] == 'load':
                out.append(s)
    return out

def check_wake_loops(mod, rep, rid, only_files=None):
    """Every waker (store waiting=0 to *another* thread's record, i.e. inside a loop over a list) is followed on all paths within
    the loop body by a semaphore V, and the loop unlinks the element it wakes unconditionally (so the loop runs until the list is empty)."""
    for fn in mod.defined.values():
        if only_files is not None and not any((fn.file or '').endswith(x) for x in only_files):
            continue
        ws = wake_stores(mod, fn)
        if not ws:
            continue
        cfg = cfg_of(fn)
        loops = cfg.loops()
        for s in ws:
            i = s.inst
            inloops = [h for h, body in loops.items() if i.block.id in body]
            vs = [j for j in fn.real_insts() if j.op == 'call' and j.callee == 'nsync_mu_semaphore_v']
            # the V that follows in the same block or a post-dominating one
            okv = any((j.block is i.block and j.idx > i.idx) or (j.block is not i.block and cfg.postdominates(j.block.id, i.block.id) and cfg.dominates(i.block.id, j.block.id)) for j in vs)
            rep.instance(rid, '%s: wake store at %s' % (fn.name, i.where()))
            rep.oblig(rid, okv)
            if not okv:
                rep.violate(Violation(rid, i.where(), '%s: the record is marked not-waiting but its semaphore is not posted on every path: the sleeper is never resumed' % fn.name,
                                      site='%s/wake-without-post' % fn.name))
            if inloops:
                h = min(inloops, key=lambda x: len(loops[x]))
                body = loops[h]
                # an unlink (nsync_dll_remove_) that dominates the wake store inside the loop body, or a while(first != NULL) form
                rem = [j for j in fn.real_insts() if j.op == 'call' and j.callee == 'nsync_dll_remove_' and j.block.id in body]
                okr = any(cfg.inst_dominates(j, i) or cfg.postdominates(j.block.id, i.block.id) for j in rem)
                rep.oblig(rid, okr)
                if not okr:
                    rep.violate(Violation(rid, i.where(), '%s: the wake loop does not unlink every element it visits (an element can be skipped and is never woken)' % fn.name,
                                          site='%s/wake-loop-skips' % fn.name))

def _repolls(mod, name, depth):
    """a defined helper that (transitively) re-reads a wake condition: an atomic load of a waiting flag or an indirect (ready_time) call"""
    f = mod.func(name)
    if f is None or f.decl or depth < 0:
        return False
    for j in f.real_insts():
        if j.op == 'load' and j.ord != 'na' and util.last_field(util.addr_class(mod, f, j.ops[0])) == WAITING:
            return True
        if j.op == 'call' and j.callee is None:
            return True
        if j.op == 'call' and j.callee and j.callee != name and not j.callee.startswith('llvm.') and _repolls(mod, j.callee, depth - 1):
            return True
    return False

def check_sleeper_loops(mod, rep, rid, sem_p, only_files=None):
    """every call to a semaphore P lies in a natural loop whose exit condition depends on an atomic load (the wake flag) or on
    values recomputed in the loop (ready times); a return value of P alone never ends the wait"""
    # the sleeping primitives form a layer (semaphore P, the cancellable wait on top of it): a static helper all of whose callers belong to the
    # layer is part of it - the loop that re-reads the wake condition is in the layer's callers
    sem_p = set(sem_p)
    callers = {}
    for f in mod.defined.values():
        for i in f.real_insts():
            if i.op == 'call' and i.callee:
                callers.setdefault(i.callee, set()).add(f.name)
    changed = True
    while changed:
        changed = False
        for f in mod.defined.values():
            if f.name not in sem_p and f.internal and callers.get(f.name) and callers[f.name] <= sem_p and any(i.op == 'call' and i.callee in sem_p for i in f.real_insts()):
                sem_p.add(f.name); changed = True
    for fn in mod.defined.values():
        if fn.name in sem_p:
            continue
        if only_files and not any((fn.file or '').endswith(x) for x in only_files):
            continue
        for i in fn.real_insts():
            if i.op == 'call' and i.callee in sem_p:
                cfg = cfg_of(fn)
                loops = cfg.loops()
                inl = [h for h, body in loops.items() if i.block.id in body]
                ok = False
                for h in inl:
                    body = loops[h]
                    # an acquire/relaxed atomic load of a waiting flag, or an indirect ready_time call, inside the loop
                    for b in body:
                        for j in fn.bmap[b].insts:
                            if j.op == 'load' and j.ord != 'na' and util.last_field(util.addr_class(mod, fn, j.ops[0])) == WAITING:
                                ok = True
                            if j.op == 'call' and j.callee is None:
                                ok = True
                            if j.op == 'call' and j.callee and _repolls(mod, j.callee, 3):
                                ok = True
                rep.instance(rid, '%s: %s at %s' % (fn.name, i.callee, i.where()))
                rep.oblig(rid, ok)
                if not ok:
                    rep.violate(Violation(rid, i.where(), '%s: the sleep on the semaphore is not inside a loop that re-reads the wake condition; a stale or merged post ends the wait early, or a single spurious return is taken for the event' % fn.name,
                                          site='%s/sleep-without-recheck' % fn.name))

"""Engine E6: must-hold locksets, lock order and critical-section facts, on top of the path-sensitive interpreter.

The nsync_mu API is *summarised* (lock: none->held, unlock: held->none, trylock: both outcomes, nsync_mu_wait: releases and re-takes);
that summary is what check C01 (rule R5) establishes for the real implementation.  The interpreter inlines the functions of the files
under analysis, names pointers by the place they were loaded from (so that `parent = n->parent` and `child = container(first(n->children))`
can be related to n), and records: every acquisition with the set of locks already held, every access to a watched field with the lockset,
every list append with whether the object's readiness flag was re-read inside the current critical section, frees and later uses."""
from .symex import Engine, Ptr, TOP, Record, is_expr
from . import util, ir as IR

LOCKS = {'nsync_mu_lock': 'W', 'nsync_mu_rlock': 'R'}
UNLOCKS = ('nsync_mu_unlock', 'nsync_mu_runlock', 'nsync_mu_unlock_without_wakeup')
TRYLOCKS = {'nsync_mu_trylock': 'W', 'nsync_mu_rtrylock': 'R'}
CONDWAITS = ('nsync_mu_wait', 'nsync_mu_wait_with_deadline')
APPENDS = ('nsync_dll_make_last_in_list_', 'nsync_dll_make_first_in_list_')
PURE_SIGN = ('nsync_time_cmp',)
BLOCKING = ('nsync_mu_semaphore_p', 'nsync_mu_semaphore_p_with_deadline', 'nsync_cv_wait', 'nsync_cv_wait_with_deadline', 'nsync_wait_n',
            'nsync_note_wait', 'nsync_counter_wait', 'nsync_time_sleep')

class LockEngine(Engine):
    MAX_STEPS = 4000000
    def __init__(self, mod, files, watch_prefixes, ready_fields, list_fields, mutex_of):
        """mutex_of: struct name -> mutex field name (e.g. 'nsync_note_s_' -> 'nsync_note_s_.note_mu')"""
        self.files = tuple(files)
        self.watch_prefixes = tuple(watch_prefixes)
        self.ready_fields = set(ready_fields)
        self.list_fields = set(list_fields)
        self.mutex_of = dict(mutex_of)
        self.origin = {}          # pointer symbol base -> set of address Ptrs it was loaded from
        self.callsite = {}        # 'ret:fn:inst' -> callee name
        self.callargs = {}
        self.track_writes = ()
        self.value_token_fields = ()
        self.timed_p_outcomes = ()
        self.entry_opaque = ()
        Engine.__init__(self, mod, [], opaque={}, inline_filter=self._inline)
        self.wrappers = util.cas_wrappers(mod)
        # C09.R8: the fields that the conditions waited for on these mutexes read (only a change of one of them needs a waking unlock): the
        # struct fields loaded by the condition functions handed to nsync_mu_wait*; None (= every list / ready field) if one is not a constant
        cf = set()
        for f in mod.defined.values():
            if not any((f.file or '').endswith(x) for x in self.files):
                continue
            for i in f.real_insts():
                if i.op == 'call' and i.callee in CONDWAITS and len(i.ops) >= 2:
                    c = i.ops[1]
                    g = mod.func(c.get('n')) if isinstance(c, dict) and c.get('k') == 'func' else None
                    if g is None or g.decl:
                        if not (isinstance(c, dict) and c.get('k') == 'null'):
                            cf = None
                        continue
                    for j in g.real_insts():
                        if j.op == 'load' and isinstance(j.ops[0], str):
                            lf = util.last_field(util.addr_class(mod, g, j.ops[0]))
                            if lf:
                                cf.add(lf)
                if cf is None:
                    break
            if cf is None:
                break
        self.cond_fields = cf
    def memoizable(self, callee):
        return False
    def inlined_result(self, st, fn, call, v):
        # an integer the interpreter could not compute inside a static helper (a predicate over opaque times, say) is still ONE value: as an
        # opaque token it keeps its identity, so that `flag = helper (..); x = flag ? a : b; .. if (flag)` stays correlated
        if v is TOP and fn.internal and call.ty in ('i1', 'i8', 'i32', 'i64') and call is not None:
            return Ptr('tok:ret:%s:%s:%s' % (fn.name, call.fn.name, call.id), ())
        return v
    def _inline(self, callee):
        if callee in self.entry_opaque:
            return False          # judged in its own entry; here only its being balanced on the locks matters
        if callee in self.wrappers:
            return True
        f = self.mod.func(callee)
        return f is not None and any((f.file or '').endswith(x) for x in self.files)
    # ---- lockset helpers
    @staticmethod
    def held(st):
        return {k[1]: v for k, v in st.ghost.items() if isinstance(k, tuple) and k[0] == 'held'}
    def obj_of_mutex(self, m):
        return Ptr(m.base, m.path[:-1]) if isinstance(m, Ptr) and m.path else m
    def mutex_field_of(self, obj_field):
        return self.mutex_of.get(obj_field.split('.')[0])
    def _mutex_arg(self, inst, args):
        m = args[0] if args else None
        if not isinstance(m, Ptr):
            # a mutex whose address the interpreter cannot name (e.g. a member of a NULL / unknown object): give it an opaque identity so
            # that every consumer of locksets sees a pointer; it matches no object's mutex
            m = Ptr('unk:%s:%s' % (inst.fn.name, inst.id), (('f', '?', 0),))
        return m
    def on_call(self, st, inst, callee, args):
        if callee in LOCKS or callee in TRYLOCKS:
            m = self._mutex_arg(inst, args)
            blocking = callee in LOCKS
            self.record(Record('acquire', inst, st, mutex=m, blocking=blocking, held=dict(self.held(st)), entry=self.entry_name,
                               flags={k: v for k, v in st.ghost.items() if isinstance(k, tuple) and k[0] in ('disc', 'obs', 'disc_excl')}),
                        ('acq', inst.fn.name, inst.id, st.stack(), tuple(sorted(st.ghost.items(), key=repr))))
            mode = LOCKS.get(callee) or TRYLOCKS[callee]
            s2 = None if blocking else st.fork()
            st.ghost[('ever', m)] = 1
            # C13.R5: re-taking the mutex of an object on whose list this thread left a record of its own frame synchronises with
            # any waker that unlinked the record (wakers touch records only inside that mutex)
            o = self.obj_of_mutex(m)
            if st.ghost.get(('enq_local', o)) == 2:
                del st.ghost[('enq_local', o)]
            st.ghost[('held', m)] = mode
            if blocking:
                return [(st, TOP)]
            return [(st, 1), (s2, 0)]
        if callee in UNLOCKS:
            m = self._mutex_arg(inst, args)
            was = ('held', m) in st.ghost
            o_ = self.obj_of_mutex(m)
            self.record(Record('release', inst, st, mutex=m, was_held=was, held=dict(self.held(st)), entry=self.entry_name, callee=callee,
                               dirty=bool(st.ghost.get(('dirty', o_)))),
                        ('rel', inst.fn.name, inst.id, st.stack(), was, tuple(sorted(st.ghost.items(), key=repr))))
            st.ghost.pop(('held', m), None)
            o = self.obj_of_mutex(m)
            st.ghost.pop(('obs', o), None)
            if st.ghost.get(('enq_local', o)) == 1:
                st.ghost[('enq_local', o)] = 2          # the record is now visible to wakers
            st.ghost.pop(('discval', o), None)
            st.ghost.pop(('dirty', o), None)
            return [(st, TOP)]
        if callee in CONDWAITS:
            m = self._mutex_arg(inst, args)
            self.record(Record('condwait', inst, st, mutex=m, held=dict(self.held(st)), entry=self.entry_name,
                               flags={k: v for k, v in st.ghost.items() if isinstance(k, tuple) and k[0] in ('disc',)}),
                        ('cw', inst.fn.name, inst.id, st.stack(), tuple(sorted(st.ghost.items(), key=repr))))
            o = self.obj_of_mutex(m)
            st.ghost.pop(('obs', o), None)          # the lock was released while waiting: earlier observations are stale
            st.ghost.pop(('discval', o), None)
            # (a conditional wait releases the mutex - with a full wake-up scan - only if it has to block: with its condition already true
            # it returns at once, so what the section changed before is still unannounced: ('dirty', o) stays)
            st.ghost[('waited', o)] = 1
            return [(st, TOP)]
        if callee in PURE_SIGN:
            # a pure three-way comparison: evaluated again on the same values it gives the same result - no infeasible "false, then true"
            # path for the idiom `if (cmp > 0 && x) ... else if (cmp > 0)`, nor for a helper that tests a note time and returns it to a caller
            # that tests it again.  Operands are identified by value where they have one (constants, opaque time tokens), otherwise by SSA
            # name within one activation.  Only the most recent evaluation per slot is remembered, so the state space stays small.
            fr = st.top
            def opkey(a, o):
                if isinstance(a, int):
                    return a
                if isinstance(a, Ptr) and not a.path and a.base.startswith('tok:'):
                    return a.base
                d = fr.fn.imap.get(o) if isinstance(o, str) else None
                if d is not None and d.op == 'load' and isinstance(d.ops[0], dict):
                    return 'load ' + repr(d.ops[0])          # a load from a constant address (e.g. a field of nsync_time_zero)
                return None
            keys = [opkey(a, o) for a, o in zip(args, inst.ops)]
            # value-identified entries are kept only for the "is it notified / ready yet" tests - a time compared with the constant zero time -
            # which are the ones repeated across helper boundaries; everything else is remembered per activation only
            if all(k is not None for k in keys) and len(keys) == 4 and keys[2] == 0 and keys[3] == 0:
                akey = tuple(keys)
                slot = ('pure', callee, '*', akey)       # value-identified: valid across activations (a few most recent ones are kept)
                old = [k2 for k2 in st.ghost if isinstance(k2, tuple) and len(k2) == 4 and k2[0] == 'pure' and k2[2] == '*' and k2 != slot]
                for k2 in old[:-1]:          # dict order = insertion order: the oldest go (two are kept in all)
                    del st.ghost[k2]
            else:
                slot = ('pure', callee, fr.fn.name, fr.depth)
                akey = tuple(k if k is not None else repr(o) for k, o in zip(keys, inst.ops))
            cached = st.ghost.get(slot)
            if isinstance(cached, tuple) and len(cached) == 2 and cached[0] == 'agg' and cached[1][0] == akey and is_expr(cached[1][1]) and cached[1][1][1] in st.S:
                st.ghost[slot] = st.ghost.pop(slot)          # most recently used
                return [(st, cached[1][1])]
            sym = 'cmp:%s:%s:%d' % (fr.fn.name, inst.id, fr.depth)
            self.kill_sym(st, sym)
            st.S[sym] = frozenset((0xFFFFFFFF, 0, 1))
            v = ('e', sym, ('s',))
            st.ghost[slot] = ('agg', (akey, v))          # 'agg' so that the state's liveness scan sees the symbol
            return [(st, v)]
        if callee in ('malloc', 'calloc'):
            p = Ptr('heap:%s:%s' % (inst.fn.name, inst.id), ())
            st.nn.discard(p)
            st.ghost[('alloc', p.base)] = 1          # C11.R2: blocks obtained by this call
            return [(st, p)]
        if callee == 'free':
            p = args[0] if args else None
            self.record(Record('free', inst, st, ptr=p, held=dict(self.held(st)), entry=self.entry_name,
                               flags={k: v for k, v in st.ghost.items() if isinstance(k, tuple) and k[0] in ('waited',)}),
                        ('free', inst.fn.name, inst.id, st.stack(), tuple(sorted(st.ghost.items(), key=repr))))
            if isinstance(p, Ptr):
                st.ghost[('freed', p.base)] = 1
            return [(st, TOP)]
        if callee in BLOCKING or callee == 'nsync_mu_semaphore_v':
            self.record(Record('prim', inst, st, callee=callee, args=args, held=dict(self.held(st)), entry=self.entry_name),
                        ('prim', inst.fn.name, inst.id, st.stack(), tuple(sorted(st.ghost.items(), key=repr))))
            if callee == 'nsync_mu_semaphore_p_with_deadline' and self.timed_p_outcomes:
                # C05.R2: which deadline the sleep was given (the caller's own, passed to the entry as opaque tokens, or another one), and its
                # outcome as a symbolic value {0, ETIMEDOUT}
                own = len(args) >= 3 and isinstance(args[1], Ptr) and args[1].base == 'tok:dl_s' and isinstance(args[2], Ptr) and args[2].base == 'tok:dl_ns'
                st.ghost[('slept_with',)] = 'deadline' if own else 'other'
                sym = 'p:%s:%s' % (inst.fn.name, inst.id)
                self.kill_sym(st, sym)
                st.S[sym] = frozenset(self.timed_p_outcomes)
                return [(st, ('e', sym, ('s',)))]
        return None
    def on_return(self, st, fn, val):
        d = st.top.depth
        for k in [k for k in st.ghost if isinstance(k, tuple) and k and k[0] == 'pure' and k[2] == fn.name and k[3] == d and k[2] != '*']:
            del st.ghost[k]
    def unknown_ret(self, st, f, inst):
        v = Engine.unknown_ret(self, st, f, inst)
        if isinstance(v, Ptr) and inst.callee:
            self.callsite[v.base] = inst.callee
            self.callargs.setdefault((self.entry_name, v.base), [])
            self.callargs[(self.entry_name, v.base)] = [self.val(f, a) for a in inst.ops]
        return v
    def on_ptr_load(self, st, f, inst, p, sp):
        self.origin.setdefault((self.entry_name, sp.base), set()).add(p)
        if p.path and p.path[-1][0] == 'f' and p.path[-1][1] in ('nsync_dll_element_s_.next', 'nsync_dll_element_s_.prev'):
            st.nn.add(sp)
    # ---- opaque integer tokens (C10): the counter's loaded value and the delta argument are named, their sum is a name too, so that
    # "the CAS installs expected + delta", "add returns that sum" and "the drain happens where that sum is 0" can be read off the paths
    def do_binop(self, op, w, a, b, inst):
        def tok(x):
            return isinstance(x, Ptr) and not x.path and x.base.startswith(('tok:', 'sum:'))
        if op == 'add' and tok(a) and tok(b):
            return Ptr('sum:' + '+'.join(sorted((a.base, b.base))), ())
        if op == 'add' and ((tok(a) and b == 0) or (tok(b) and a == 0)):
            return a if tok(a) else b
        return Engine.do_binop(self, op, w, a, b, inst)
    def on_cas_other(self, st, f, inst, p, E, N):
        if isinstance(p, Ptr) and p.path and p.path[-1][0] == 'f' and p.path[-1][1] in self.ready_fields:
            self.record(Record('valcas', inst, st, field=p.path[-1][1], obj=Ptr(p.base, p.path[:-1]), expected=E, new=N, held=dict(self.held(st)), entry=self.entry_name),
                        ('valcas', inst.fn.name, inst.id, st.stack(), repr(E), repr(N)))
    STABLE_TIME_FIELDS = ('nsync_note_s_.expiry_time',)      # written by the constructor only (before the note is published)
    def _time_token(self, st, f, inst, p):
        """a 64-bit member of a note's expiry time: named after the object and field (the field never changes after construction, so every read
        of it yields the same value), so that a time read in a helper and compared again by its caller is recognised as the same value"""
        if inst.ty == 'i64' and any(x[0] == 'f' and x[1].startswith(self.STABLE_TIME_FIELDS) for x in p.path):
            return Ptr('tok:fld:%s:%s' % (p.base, '/'.join(str(x[1]) for x in p.path)), ())
        return None
    def on_int_load(self, st, f, inst, p):
        tt = self._time_token(st, f, inst, p)
        if tt is not None:
            return tt
        # the disconnecting count of a note, read under that note's mutex: abstracted to {0, non-zero} so that tests of it are path-sensitive
        if p.path and p.path[-1][0] == 'f' and p.path[-1][1].endswith('.disconnecting'):
            obj = Ptr(p.base, p.path[:-1])
            mf = self.mutex_field_of(p.path[-1][1])
            if mf and any(isinstance(m, Ptr) and m.base == obj.base and m.path[:-1] == obj.path and m.path[-1][1] == mf for m in self.held(st)):
                cached = st.ghost.get(('discval', obj))
                if is_expr(cached) and cached[1] in st.S:
                    return cached          # same critical section, nobody else can have changed it
                sym = 'disc:%s:%s' % (f.fn.name, inst.id)
                self.kill_sym(st, sym)
                st.S[sym] = frozenset((0, 1))
                v = ('e', sym, ('s',))
                st.ghost[('discval', obj)] = v
                return v
        return None
    def atomic_load_other(self, st, f, inst, p):
        if isinstance(p, Ptr) and p.path and p.path[-1][0] == 'f' and p.path[-1][1] in self.ready_fields:
            obj = Ptr(p.base, p.path[:-1])
            mf = self.mutex_field_of(p.path[-1][1])
            if mf and any(isinstance(m, Ptr) and m.base == obj.base and m.path[:-1] == obj.path and m.path[-1][1] == mf for m in self.held(st)):
                st.ghost[('obs', obj)] = 1
            if p.path[-1][1] in self.value_token_fields:
                t = Ptr('tok:val:%s:%s' % (f.fn.name, inst.id), ())
                st.nn.discard(t)
                st.ghost.pop(('zero', t.base), None)
                return t
        return TOP
    def note_access(self, st, inst, p, kind):
        if not isinstance(p, Ptr):
            return
        if kind in ('store', 'cas') and p.base.startswith('arg:') and self.track_writes:
            st.ghost[('wrote', p.base)] = 1          # C19.R3: an object that existed before the call has been modified on this path
        if st.ghost.get(('freed', p.base)):
            self.record(Record('uaf', inst, st, ptr=p, access=kind, entry=self.entry_name), ('uaf', inst.fn.name, inst.id, st.stack()))
        if p.path and p.path[-1][0] == 'f' and p.path[-1][1].startswith(self.watch_prefixes):
            obj = Ptr(p.base, p.path[:-1])
            self.record(Record('access', inst, st, field=p.path[-1][1], access=kind, obj=obj, held=dict(self.held(st)), entry=self.entry_name, atomic=inst.x.get('ord', 'na') != 'na'),
                        ('access', inst.fn.name, inst.id, st.stack(), kind, tuple(sorted(self.held(st).items(), key=repr))))
    def on_store(self, st, f, inst, p, v):
        if isinstance(p, Ptr) and p.path and p.path[-1][0] == 'f':
            fld = p.path[-1][1]
            obj = Ptr(p.base, p.path[:-1])
            if fld in self.list_fields and isinstance(v, Ptr) and self.callsite.get(v.base) in APPENDS:
                self.record(Record('enqueue', inst, st, field=fld, obj=obj, held=dict(self.held(st)), observed=bool(st.ghost.get(('obs', obj))), entry=self.entry_name,
                                   element=(self.callargs.get((self.entry_name, v.base)) or [None, None])[1]),
                            ('enq', inst.fn.name, inst.id, st.stack(), bool(st.ghost.get(('obs', obj))), tuple(sorted(self.held(st).items(), key=repr))))
                el = (self.callargs.get((self.entry_name, v.base)) or [None, None])[1]
                if isinstance(el, Ptr) and el.base.startswith('alloca:'):
                    st.ghost[('enq_local', obj)] = 1           # a record living in this thread's frame is put on a shared list
            if fld in self.list_fields and isinstance(v, Ptr) and self.callsite.get(v.base) == 'nsync_dll_remove_':
                el = (self.callargs.get((self.entry_name, v.base)) or [None, None])[1]
                # which notes has this thread found, in their current critical section, to have nobody else disconnecting them?
                dz = set()
                for k2, v2 in st.ghost.items():
                    if isinstance(k2, tuple) and k2[0] == 'discval' and is_expr(v2) and v2[2] == ('s',) and st.S.get(v2[1]) == frozenset((0,)):
                        dz.add(k2[1])
                self.record(Record('unlink', inst, st, field=fld, obj=obj, element=el, disczero=dz, held=dict(self.held(st)), entry=self.entry_name),
                            ('unlink', inst.fn.name, inst.id, st.stack(), repr(el), tuple(sorted(dz, key=repr))))
            if (fld in self.list_fields or fld in self.ready_fields) and (self.cond_fields is None or fld in self.cond_fields):
                # C09.R8: this critical section changed state that conditional waiters of the object's mutex may be waiting for
                st.ghost[('dirty', obj)] = 1
            if fld.endswith('.disconnecting'):
                if is_expr(v):
                    st.ghost[('discval', obj)] = v
                else:
                    st.ghost.pop(('discval', obj), None)
                # ++ / -- of the disconnecting count by this thread
                vi = f.fn.imap.get(inst.ops[0]) if isinstance(inst.ops[0], str) else None
                if vi is not None and vi.op in ('add', 'sub'):
                    c = [o for o in vi.ops if IR.is_int(o)]
                    if c:
                        d = IR.ival(c[0]) if vi.op == 'add' else -IR.ival(c[0])
                        if d > 0:
                            # was the count known to be zero when this thread raised it?  (then it is the only disconnector)
                            old = next((self.val(f, o) for o in vi.ops if isinstance(o, str)), None)
                            excl = is_expr(old) and old[2] == ('s',) and st.S.get(old[1]) == frozenset((0,))
                            st.ghost[('disc_excl', obj)] = 1 if excl else 0
                        cur = st.ghost.get(('disc', obj), 0) + (1 if d > 0 else -1)
                        if cur:
                            st.ghost[('disc', obj)] = cur
                        else:
                            st.ghost.pop(('disc', obj), None)
    # ---- relations between pointers
    def derives_from(self, entry, p, obj, field, depth=0, seen=None):
        """was pointer p (a loaded symbol) obtained by following list links / container pointers starting from obj.field ?"""
        if not isinstance(p, Ptr) or depth > 12:
            return False
        seen = seen or set()
        if p.base in seen:
            return False
        seen.add(p.base)
        for a in self.origin.get((entry, p.base), ()):
            if a.path and a.path[-1][0] == 'f' and a.path[-1][1] == field and Ptr(a.base, a.path[:-1]) == obj:
                return True
            if a.path and a.path[-1][0] == 'f' and a.path[-1][1] in ('nsync_dll_element_s_.next', 'nsync_dll_element_s_.prev', 'nsync_dll_element_s_.container'):
                if self.derives_from(entry, Ptr(a.base, ()), obj, field, depth + 1, seen):
                    return True
        cs = self.callsite.get(p.base)
        if cs and cs.startswith('nsync_dll_'):
            for a in (self.callargs.get((entry, p.base)) or []):
                if isinstance(a, Ptr) and self.derives_from(entry, Ptr(a.base, ()), obj, field, depth + 1, seen):
                    return True
        return False
    def is_field_load_of(self, entry, p, obj, field):
        if not isinstance(p, Ptr):
            return False
        for a in self.origin.get((entry, p.base), ()):
            if a.path and a.path[-1][0] == 'f' and a.path[-1][1] == field and Ptr(a.base, a.path[:-1]) == obj and not p.path:
                return True
        return False

"""Path-sensitive abstract interpreter over the IR facts (engines E1/E2/E6 of DESIGN.md).

Nothing is executed: the interpreter walks the CFG of an entry function, inlining library callees, with
 * SSA registers holding concrete ints, TOP, symbolic pointers (base + field path) or *word expressions*: expression trees
   over one symbolic atomic load of a protocol word whose possible values are kept as a finite set S(sym) (the set is
   split at branches, so the values are always those consistent with the path taken);
 * a ghost typestate per lock instance (hold in {none,W,R,?} x spin in {0,1}) that is updated from the effect of each
   successful CAS / store on the word;
 * a small memory for allocas and owner-only fields.
All states are finite and hashed at block entries, so loops reach a fix-point.  Transitions, calls, returns and accesses
are recorded for the rule modules to judge."""
from collections import namedtuple
from . import ir as IR
from .report import AnalysisBroken
from .util import noreturn_functions, is_assert_trap

class _Top:
    def __repr__(self):
        return 'TOP'
    def __reduce__(self):
        return 'TOP'
TOP = _Top()

class _NonZero:
    """an unknown positive counter value (a loop counter after at least one increment; 32-bit wrap-around is not modelled)"""
    def __repr__(self):
        return 'NZ'
    def __reduce__(self):
        return 'NZ'
NZ = _NonZero()

Ptr = namedtuple('Ptr', 'base path')
# Expr: ('e', sym, tree); tree: ('s',) | int | ('b', op, w, L, R) | ('c', pred, w, L, R) | ('z', kind, w, X) | ('sel', C, A, B)

def is_expr(v):
    return isinstance(v, tuple) and len(v) == 3 and v[0] == 'e'
def is_agg(v):
    return isinstance(v, tuple) and len(v) == 2 and v[0] == 'agg'

def width_of(ty):
    if ty.startswith('i') and ty[1:].isdigit():
        return int(ty[1:])
    if ty.endswith('*'):
        return 64
    return None

def _mask(w):
    return (1 << w) - 1

def _sx(v, w):
    return v - (1 << w) if v >> (w - 1) else v

def binop(op, w, a, b):
    m = _mask(w)
    if op == 'add': return (a + b) & m
    if op == 'sub': return (a - b) & m
    if op == 'mul': return (a * b) & m
    if op == 'and': return a & b
    if op == 'or': return a | b
    if op == 'xor': return a ^ b
    if op == 'shl': return (a << b) & m if b < w else 0
    if op == 'lshr': return (a >> b) if b < w else 0
    if op == 'ashr': return (_sx(a, w) >> min(b, w - 1)) & m
    if op == 'udiv': return (a // b) if b else 0
    if op == 'urem': return (a % b) if b else 0
    if op == 'sdiv':
        if not b: return 0
        x, y = _sx(a, w), _sx(b, w)
        q = abs(x) // abs(y)
        return (q if (x < 0) == (y < 0) else -q) & m
    if op == 'srem':
        if not b: return 0
        x, y = _sx(a, w), _sx(b, w)
        r = abs(x) % abs(y)
        return (r if x >= 0 else -r) & m
    raise AnalysisBroken('symex: unsupported binary op ' + op)

def icmp(pred, w, a, b):
    if pred == 'eq': return int(a == b)
    if pred == 'ne': return int(a != b)
    if pred == 'ugt': return int(a > b)
    if pred == 'uge': return int(a >= b)
    if pred == 'ult': return int(a < b)
    if pred == 'ule': return int(a <= b)
    x, y = _sx(a, w), _sx(b, w)
    if pred == 'sgt': return int(x > y)
    if pred == 'sge': return int(x >= y)
    if pred == 'slt': return int(x < y)
    if pred == 'sle': return int(x <= y)
    raise AnalysisBroken('symex: unsupported icmp predicate ' + pred)

def eval_tree(t, d):
    if isinstance(t, int):
        return t
    k = t[0]
    if k == 's':
        return d
    if k == 'b':
        return binop(t[1], t[2], eval_tree(t[3], d), eval_tree(t[4], d))
    if k == 'c':
        return icmp(t[1], t[2], eval_tree(t[3], d), eval_tree(t[4], d))
    if k == 'z':
        v = eval_tree(t[3], d)
        kind, w, sw = t[1], t[2], t[4]
        if kind == 'zext': return v
        if kind == 'trunc': return v & _mask(w)
        if kind == 'sext': return _sx(v, sw) & _mask(w)
        raise AnalysisBroken('symex: cast ' + kind)
    if k == 'sel':
        return eval_tree(t[2], d) if eval_tree(t[1], d) else eval_tree(t[3], d)
    raise AnalysisBroken('symex: bad tree')

def tree_consts(t, out):
    """all integer constants an expression combines the symbolic word with (for the small-model domain check)"""
    if isinstance(t, int):
        out.add(t)
    elif t[0] in ('b', 'c'):
        tree_consts(t[3], out); tree_consts(t[4], out)
    elif t[0] == 'z':
        tree_consts(t[3], out)
    elif t[0] == 'sel':
        for x in t[1:]:
            tree_consts(x, out)

# ------------------------------------------------------------------------------------------------------------------

class Frame:
    __slots__ = ('fn', 'bid', 'idx', 'prev', 'regs', 'call', 'depth')
    def __init__(self, fn, bid, idx, prev, regs, call, depth):
        self.fn, self.bid, self.idx, self.prev, self.regs, self.call, self.depth = fn, bid, idx, prev, regs, call, depth
    def copy(self):
        return Frame(self.fn, self.bid, self.idx, self.prev, dict(self.regs), self.call, self.depth)

class State:
    __slots__ = ('frames', 'S', 'mem', 'ghost', 'nn', 'trace', 'prefix', 'pcalls')
    def __init__(self, frames, S, mem, ghost, nn, trace, prefix=(), pcalls=()):
        self.frames, self.S, self.mem, self.ghost, self.nn, self.trace = frames, S, mem, ghost, nn, trace
        self.prefix, self.pcalls = prefix, pcalls
    def fork(self):
        return State([f.copy() for f in self.frames], dict(self.S), dict(self.mem), dict(self.ghost), set(self.nn), self.trace,
                     self.prefix, self.pcalls)
    @property
    def top(self):
        return self.frames[-1]
    def stack(self):
        return self.prefix + tuple(f.fn.name for f in self.frames)
    def callstring(self):
        return ' > '.join(self.stack())

class Record:
    """something the rules want to judge"""
    def __init__(self, kind, inst, state, **kw):
        self.kind = kind
        self.inst = inst
        self.stack = state.stack()
        self.calls = state.pcalls + tuple(f.call for f in state.frames)
        self.ghost = dict(state.ghost)
        self.entry = None
        self.__dict__.update(kw)
    def site(self, wrappers=()):
        """the instruction at source level: for an atomic inside an atm_cas_* wrapper, the call to the wrapper"""
        inst = self.inst
        k = len(self.stack) - 1
        while inst is not None and inst.fn.name in wrappers and k >= 0 and self.calls[k] is not None:
            inst = self.calls[k]
            k -= 1
        return inst
    def where(self):
        return self.inst.where() if self.inst is not None else '?'
    def ctx(self):
        return ' > '.join(self.stack)

class Liveness:
    def __init__(self, fn):
        self.fn = fn
        use, defs = {}, {}
        for b in fn.blocks:
            u, d = set(), set()
            for i in b.insts:
                if i.op == 'dbg':
                    continue
                if i.op != 'phi':
                    for r in self._refs(i):
                        if r not in d:
                            u.add(r)
                d.add(i.id)
            use[b.id], defs[b.id] = u, d
        phi_use = {b.id: set() for b in fn.blocks}   # uses at the end of pred blocks
        for b in fn.blocks:
            for i in b.insts:
                if i.op == 'phi':
                    for v, pb in i.ops:
                        if isinstance(v, str):
                            phi_use[pb].add(v)
        live_in = {b.id: set() for b in fn.blocks}
        live_out = {b.id: set() for b in fn.blocks}
        changed = True
        while changed:
            changed = False
            for b in reversed(fn.blocks):
                out = set(phi_use[b.id])
                for s in b.succ:
                    out |= live_in[s]
                # phi results of successors are defined there, not live-out here; live_in already excludes them
                inn = use[b.id] | (out - defs[b.id])
                if out != live_out[b.id] or inn != live_in[b.id]:
                    live_out[b.id], live_in[b.id] = out, inn
                    changed = True
        # phi-defined values are live-in to the body of their block
        self.live_in, self.live_out = live_in, live_out
        self._after = {}
        self.induction = self._induction(fn)
    @staticmethod
    def _induction(fn):
        """arithmetic instructions that lie on a def-use cycle through a phi (loop counters): evaluated to TOP so that
        the state space stays finite"""
        succ = {}
        for i in fn.real_insts():
            if i.op == 'phi':
                refs = [v for v, _ in i.ops if isinstance(v, str)]
            else:
                refs = [r for r in i.ops if isinstance(r, str)]
            for r in refs:
                succ.setdefault(r, []).append(i.id)
        out = set()
        arith = ('add', 'sub', 'mul', 'shl', 'getelementptr')          # (a pointer cursor `p++` is a loop counter too)
        for i in fn.real_insts():
            if i.op not in arith:
                continue
            seen = set()
            work = list(succ.get(i.id, []))
            while work:
                n = work.pop()
                if n == i.id:
                    out.add(i.id)
                    break
                if n in seen:
                    continue
                seen.add(n)
                work.extend(succ.get(n, []))
        return out
    @staticmethod
    def _refs(i):
        out = [r for r in i.ops if isinstance(r, str) and (r[0] in 'ai') and r[1:].isdigit()]
        cv = i.x.get('cv')
        if isinstance(cv, str):
            out.append(cv)
        return out
    def live_after(self, inst):
        key = inst.id
        r = self._after.get(key)
        if r is None:
            b = inst.block
            r = set(self.live_out[b.id])
            for j in b.insts[inst.idx + 1:]:
                if j.op != 'dbg' and j.op != 'phi':
                    r.update(self._refs(j))
            self._after[key] = r
        return r

class WordClass:
    """a protocol word: which (struct.field) it is, the universe of representative values, how to read lock bits"""
    def __init__(self, name, field, universe, lockbits, small_model=False, count_shift=8, count_mask=0xFFFFFF):
        self.name = name
        self.field = field
        if universe is not None:
            self.universe = universe      # function(hold, spin) -> frozenset of ints
        if lockbits is not None:
            self.lockbits = lockbits      # function(value) -> (W, count, SPIN)
        self.small_model = small_model
        self.count_shift = count_shift
        self.count_mask = count_mask

class Engine:
    MAX_STEPS = 3000000
    MAX_DEPTH = 12

    def __init__(self, mod, word_classes, opaque=None, tracked_fields=(), inline_filter=None):
        self.mod = mod
        self.wc = {w.field: w for w in word_classes}
        self.opaque = dict(opaque or {})
        self.tracked_fields = set(tracked_fields)
        self.noret = noreturn_functions(mod)
        self.live = {}
        self.records = []
        self.rec_keys = set()
        self.steps = 0
        self.inline_filter = inline_filter
        self.consts_seen = {}
        self._immut = {}
        self._stored_fields = None
        self.entry_name = None
        self.universe_cache = {}
        self.memo = {}
        self.no_memo = set()
        self.steps0 = 0

    # ---- hooks for subclasses -------------------------------------------------------------------------------
    def on_transition(self, st, rec):
        pass
    def on_call(self, st, inst, callee, args):
        """return None to proceed normally; or a list of (state, retval) to override"""
        return None
    def on_return(self, st, fn, val):
        pass
    def on_enter(self, st, inst, callee, args):
        pass

    # ---- helpers --------------------------------------------------------------------------------------------
    def liveness(self, fn):
        l = self.live.get(fn.name)
        if l is None:
            l = self.live[fn.name] = Liveness(fn)
        return l

    def record(self, rec, key):
        if key in self.rec_keys:
            return
        self.rec_keys.add(key)
        self.records.append(rec)

    def stored_fields(self):
        """fields / globals that are stored to (non-atomically or atomically) anywhere in the module"""
        if self._stored_fields is None:
            from .util import addr_class, last_field
            sf, sg = set(), set()
            for f in self.mod.defined.values():
                for i in f.real_insts():
                    if i.op == 'store':
                        ac = addr_class(self.mod, f, i.ops[1])
                        lf = last_field(ac)
                        if lf:
                            sf.add(lf)
                        if ac['kind'] == 'global' and not ac['path']:
                            sg.add(ac['name'])
                        if ac['kind'] == 'global':
                            sg.add(ac['name'] + '#field')
                    elif i.op == 'call' and i.callee and i.callee.startswith('llvm.mem'):
                        ac = addr_class(self.mod, f, i.ops[0])
                        if ac['kind'] == 'global':
                            sg.add(ac['name']); sg.add(ac['name'] + '#field')
            self._stored_fields = (sf, sg)
        return self._stored_fields

    def global_value(self, name, path):
        """value of an immutable global at path, or None when the global may change"""
        g = self.mod.globals.get(name)
        if g is None or 'init' not in g or g.get('tls'):
            return None
        sf, sg = self.stored_fields()
        if not g['const']:
            if name in sg or (name + '#field') in sg:
                return None
            # struct-typed table: no store to any field of that struct type anywhere
            ty = g['ty']
            if ty.startswith('%struct.'):
                base = self.mod.struct_base(ty[1:])
                if any(x.startswith(base + '.') for x in sf):
                    return None
        v = g['init']
        def esize(e):
            k = e.get('k')
            if k == 'int':
                return max(1, e.get('w', 64) // 8)
            if k == 'agg':
                return sum(esize(x) for x in e['elts'])
            return 8
        for p in path:
            if v.get('k') == 'zero':
                return 0
            if v.get('k') != 'agg':
                return None
            if p[0] == 'f':
                idx = p[2]
            elif p[0] == 'i' and isinstance(p[1], int):
                idx = p[1]
            elif p[0] == 'o' and isinstance(p[1], int):
                # byte offset into the aggregate (a cast pointer): find the element that starts there
                pos, idx = 0, None
                for k, e in enumerate(v['elts']):
                    if pos == p[1]:
                        idx = k
                        break
                    pos += esize(e)
                if idx is None:
                    return None
            else:
                return None
            if idx >= len(v['elts']):
                return None
            v = v['elts'][idx]
        # a scalar read at the start of an aggregate reads its first scalar member
        while v.get('k') == 'agg' and v.get('elts'):
            v = v['elts'][0]
        if v.get('k') == 'zero':
            return 0
        return self.const_value(v)

    def const_value(self, c):
        k = c.get('k')
        if k == 'int':
            return c['v'] & _mask(c['w']) if c['w'] <= 64 else TOP
        if k == 'null':
            return 0
        if k == 'global':
            return Ptr('glob:' + c['n'], ())
        if k == 'func':
            return Ptr('func:' + c['n'], ())
        if k == 'cexpr':
            if c['op'] in ('bitcast', 'addrspacecast'):
                return self.const_value(c['ops'][0])
            if c['op'] == 'getelementptr':
                b = self.const_value(c['ops'][0])
                if isinstance(b, Ptr):
                    off = c.get('coff')
                    if off == 0:
                        return b
                    return Ptr(b.base, b.path + (('o', off),))
                return TOP
            if c['op'] in ('ptrtoint', 'inttoptr'):
                v = self.const_value(c['ops'][0])
                return v if isinstance(v, int) else TOP
            return TOP
        if k == 'zero':
            return 0 if width_of(c.get('ty', '')) else TOP
        if k == 'undef':
            return TOP
        return TOP

    def val(self, fr, ref):
        if isinstance(ref, str):
            return fr.regs.get(ref, TOP)
        return self.const_value(ref)

    def word_of(self, ptr):
        """(WordClass, instance Ptr) if ptr addresses a tracked protocol word"""
        if isinstance(ptr, Ptr) and ptr.path:
            last = ptr.path[-1]
            if last[0] == 'f' and last[1] in self.wc:
                return self.wc[last[1]], Ptr(ptr.base, ptr.path[:-1])
        return None, None

    def ghost_of(self, st, wc, inst):
        return st.ghost.get(('lk', wc.name, inst), ('?', 0))

    def set_lk(self, st, wc, instance, hold, spin):
        if (hold, spin) == ('?', 0):
            st.ghost.pop(('lk', wc.name, instance), None)
        else:
            st.ghost[('lk', wc.name, instance)] = (hold, spin)

    def universe(self, wc, hold, spin):
        key = (wc.name, hold, spin)
        u = self.universe_cache.get(key)
        if u is None:
            u = self.universe_cache[key] = wc.universe(hold, spin)
        return u

    # ---- main loop ------------------------------------------------------------------------------------------
    def run(self, entry, args, ghost=None, mem=None, nn=(), label=None, syms=None):
        fn = self.mod.func(entry)
        if fn is None or fn.decl:
            raise AnalysisBroken('symex: entry function %s not found' % entry)
        self.entry_name = label or entry
        regs = {}
        for a, v in zip(fn.args, args):
            regs[a['id']] = v
        st = State([Frame(fn, fn.entry.id, 0, None, regs, None, 0)], dict(syms or {}), dict(mem or {}), dict(ghost or {}), set(nn), ())
        self.steps0 = self.steps
        key = self.memo_key(st, entry, list(args))
        if key is not None and key in self.memo:
            exits = []
            for ent in self.memo[key]:
                x = State([], {}, dict(mem or {}), dict(ghost or {}), set(nn), ())
                rv = self.apply_summary(x, list(args), ent)
                x.trace = (rv,)
                exits.append(x)
            self.memo_hits_top = getattr(self, 'memo_hits_top', 0) + 1
            return exits
        exits = self.explore(st)
        if key is not None:
            self.memo[key] = [self.make_summary(x) for x in exits]
        return exits

    def explore(self, st):
        visited = set()
        work = [st]
        exits = []
        while work:
            st = work.pop()
            res = self.step_block(st, visited)
            for s in res:
                if s.frames:
                    work.append(s)
                else:
                    exits.append(s)
            if self.steps - self.steps0 > self.MAX_STEPS:
                raise AnalysisBroken('symex: step budget exceeded while analysing %s (state explosion)' % self.entry_name)
        return exits

    def freeze(self, st):
        fr = []
        live_syms = set()
        live_ptrs = set()
        def fv(v):
            if is_expr(v):
                live_syms.add(v[1])
            elif isinstance(v, Ptr):
                live_ptrs.add(v.base)
            elif is_agg(v):
                for x in v[1]:
                    fv(x)
            return v
        for f in st.frames:
            items = tuple(sorted((k, fv(v)) for k, v in f.regs.items()))
            fr.append((f.fn.name, f.bid, f.idx, f.prev if f.idx == 0 else None, items, f.call.id if f.call is not None else None))
        mem = tuple(sorted(((k, fv(v)) for k, v in st.mem.items()), key=repr))
        gh = tuple(sorted(((k, fv(v)) for k, v in st.ghost.items()), key=repr))
        for s in list(st.S):
            if s not in live_syms:
                del st.S[s]
        S = tuple(sorted(st.S.items()))
        for k in st.mem:
            live_ptrs.add(k.base)
        for k in st.ghost:
            if isinstance(k, tuple) and len(k) == 3 and isinstance(k[2], Ptr):
                live_ptrs.add(k[2].base)
        for p in [p for p in st.nn if p.base not in live_ptrs]:
            st.nn.discard(p)
        return (tuple(fr), mem, gh, S, tuple(sorted(st.nn)))

    def prune(self, st):
        f = st.top
        lv = self.liveness(f.fn)
        keep = lv.live_in[f.bid]
        for k in list(f.regs):
            if k not in keep:
                del f.regs[k]

    def step_block(self, st, visited):
        """execute from st.top (block, idx) to the end of the block (or a call/fork); return successor states"""
        f = st.top
        fn = f.fn
        blk = fn.bmap[f.bid]
        if f.idx == 0:
            # phis
            phis = [i for i in blk.insts if i.op == 'phi']
            if phis:
                vals = {}
                for p in phis:
                    got = TOP
                    for v, pb in p.ops:
                        if pb == f.prev:
                            got = self.val(f, v)
                            break
                    vals[p.id] = got
                f.regs.update(vals)
            # prune dead registers (keep phi results)
            lv = self.liveness(fn)
            keep = lv.live_in[f.bid]
            for k in list(f.regs):
                if k not in keep and not (phis and k in vals):
                    del f.regs[k]
            key = self.freeze(st)
            if key in visited:
                return []
            visited.add(key)
        insts = blk.insts
        i = f.idx
        n = len(insts)
        while i < n:
            inst = insts[i]
            self.steps += 1
            op = inst.op
            if op in ('dbg', 'phi'):
                i += 1
                continue
            f.idx = i
            out = self.exec_inst(st, f, inst)
            if out is None:
                i += 1
                continue
            return out
        return []

    # each exec_* returns None (continue with next inst in same state) or a list of successor states
    def goto(self, st, f, target):
        f.prev = f.bid
        f.bid = target
        f.idx = 0
        return st

    def exec_inst(self, st, f, inst):
        op = inst.op
        regs = f.regs
        if op in ('add', 'sub', 'mul', 'and', 'or', 'xor', 'shl', 'lshr', 'ashr', 'udiv', 'urem', 'sdiv', 'srem'):
            a, b = self.val(f, inst.ops[0]), self.val(f, inst.ops[1])
            if inst.id in self.liveness(f.fn).induction and (isinstance(a, int) or a is NZ) and (isinstance(b, int) or b is NZ):
                # loop counter: keep only "positive" when it is incremented from a non-negative value
                w = width_of(inst.ty) or 32
                pos = lambda x: x is NZ or (isinstance(x, int) and 0 < x < (1 << (w - 1)))
                nonneg = lambda x: x is NZ or (isinstance(x, int) and x < (1 << (w - 1)))
                regs[inst.id] = NZ if op == 'add' and ((pos(a) and nonneg(b)) or (pos(b) and nonneg(a))) else TOP
            elif a is NZ or b is NZ:
                regs[inst.id] = TOP
            else:
                regs[inst.id] = self.do_binop(op, width_of(inst.ty), a, b, inst)
            return None
        if op == 'icmp':
            return self.exec_icmp(st, f, inst)
        if op in ('zext', 'sext', 'trunc'):
            a = self.val(f, inst.ops[0])
            w = width_of(inst.ty); sw = width_of(inst.x['sty'])
            if isinstance(a, int):
                if op == 'zext': r = a
                elif op == 'trunc': r = a & _mask(w)
                else: r = _sx(a, sw) & _mask(w)
            elif is_expr(a):
                r = ('e', a[1], ('z', op, w, a[2], sw))
            else:
                r = TOP
            regs[inst.id] = r
            return None
        if op in ('bitcast', 'addrspacecast'):
            regs[inst.id] = self.val(f, inst.ops[0])
            return None
        if op == 'ptrtoint':
            a = self.val(f, inst.ops[0])
            regs[inst.id] = a if isinstance(a, int) else (('pi', a) if isinstance(a, Ptr) else TOP)
            return None
        if op == 'inttoptr':
            a = self.val(f, inst.ops[0])
            if isinstance(a, int):
                regs[inst.id] = a
            elif isinstance(a, tuple) and len(a) == 2 and a[0] == 'pi':
                regs[inst.id] = a[1]
            else:
                regs[inst.id] = TOP
            return None
        if op == 'getelementptr':
            regs[inst.id] = self.do_gep(st, f, inst)
            return None
        if op == 'alloca':
            p = Ptr('alloca:%s:%s:%d' % (f.fn.name, inst.id, f.depth), ())
            st.nn.add(p)
            regs[inst.id] = p
            return None
        if op == 'load':
            return self.exec_load(st, f, inst)
        if op == 'store':
            return self.exec_store(st, f, inst)
        if op == 'cmpxchg':
            return self.exec_cmpxchg(st, f, inst)
        if op == 'atomicrmw':
            raise AnalysisBroken('symex: atomicrmw at %s is not modelled' % inst.where())
        if op == 'fence':
            return None
        if op == 'extractvalue':
            a = self.val(f, inst.ops[0])
            if is_agg(a) and len(inst.x['idx']) == 1 and inst.x['idx'][0] < len(a[1]):
                regs[inst.id] = a[1][inst.x['idx'][0]]
            else:
                regs[inst.id] = TOP
            return None
        if op == 'insertvalue':
            base = self.val(f, inst.ops[0])
            idx = inst.x.get('idx') or []
            if len(idx) == 1:
                elts = list(base[1]) if is_agg(base) else []
                while len(elts) <= idx[0]:
                    elts.append(TOP)
                elts[idx[0]] = self.val(f, inst.ops[1])
                regs[inst.id] = ('agg', tuple(elts))
            else:
                regs[inst.id] = TOP
            return None
        if op == 'select':
            return self.exec_select(st, f, inst)
        if op == 'br':
            return self.exec_br(st, f, inst)
        if op == 'switch':
            c = self.val(f, inst.ops[0])
            if isinstance(c, int):
                w = width_of(f.fn.imap[inst.ops[0]].ty) if isinstance(inst.ops[0], str) and inst.ops[0] in f.fn.imap else 32
                for cv, tb in inst.x['cases']:
                    if (cv & _mask(w or 32)) == c:
                        return [self.goto(st, f, tb)]
                return [self.goto(st, f, inst.x['targets'][0])]
            if is_expr(c):
                # a symbolic value over a finite set: each case edge keeps the elements that select it, the default edge the rest
                w = width_of(f.fn.imap[inst.ops[0]].ty) if isinstance(inst.ops[0], str) and inst.ops[0] in f.fn.imap else 32
                outs, cur = [], st
                for cv, tb in inst.x['cases']:
                    if cur is None:
                        break
                    t, fl = self.split(cur, ('e', c[1], ('c', 'eq', w or 32, c[2], cv & _mask(w or 32))))
                    if t is not None:
                        outs.append(self.goto(t, t.top, tb))
                    cur = fl
                if cur is not None:
                    outs.append(self.goto(cur, cur.top, inst.x['targets'][0]))
                return outs
            outs = []
            tg = [inst.x['targets'][0]] + [tb for _, tb in inst.x['cases']]
            for tb in dict.fromkeys(tg):
                s2 = st.fork()
                outs.append(self.goto(s2, s2.top, tb))
            return outs
        if op == 'ret':
            v = self.val(f, inst.ops[0]) if inst.ops else None
            return self.do_return(st, f, inst, v)
        if op == 'unreachable':
            return []
        if op == 'call':
            return self.exec_call(st, f, inst)
        if op in ('va_arg',):
            regs[inst.id] = TOP
            return None
        if op in ('fadd', 'fsub', 'fmul', 'fdiv', 'fcmp', 'sitofp', 'uitofp', 'fptosi', 'fptoui', 'fpext', 'fptrunc', 'freeze',
                  'extractelement', 'insertelement', 'shufflevector'):
            regs[inst.id] = TOP
            return None
        raise AnalysisBroken('symex: unmodelled instruction %s at %s' % (op, inst.where()))

    def do_binop(self, op, w, a, b, inst):
        if w is None:
            return TOP
        if isinstance(a, int) and isinstance(b, int):
            return binop(op, w, a, b)
        ea, eb = is_expr(a), is_expr(b)
        if (ea or isinstance(a, int)) and (eb or isinstance(b, int)):
            if ea and eb and a[1] != b[1]:
                return TOP
            sym = a[1] if ea else b[1]
            ta = a[2] if ea else a
            tb = b[2] if eb else b
            return ('e', sym, ('b', op, w, ta, tb))
        # x & 0 == 0 etc. are not needed
        return TOP

    def exec_icmp(self, st, f, inst):
        a, b = self.val(f, inst.ops[0]), self.val(f, inst.ops[1])
        pred = inst.x['pred']
        w = width_of(f.fn.imap[inst.ops[0]].ty if isinstance(inst.ops[0], str) and inst.ops[0] in f.fn.imap else
                     (next((x['ty'] for x in f.fn.args if x['id'] == inst.ops[0]), 'i64') if isinstance(inst.ops[0], str) else 'i%d' % inst.ops[0].get('w', 64)))
        if w is None:
            w = 64
        regs = f.regs
        if isinstance(a, int) and isinstance(b, int):
            regs[inst.id] = icmp(pred, w, a, b)
            return None
        if a is NZ or b is NZ:
            o = b if a is NZ else a
            if o == 0 and pred in ('eq', 'ne'):
                regs[inst.id] = int(pred == 'ne')
            elif o == 0 and pred in ('ugt', 'ult'):
                regs[inst.id] = int((pred == 'ugt') == (a is NZ))
            else:
                regs[inst.id] = TOP
            return None
        ea, eb = is_expr(a), is_expr(b)
        if (ea or isinstance(a, int)) and (eb or isinstance(b, int)):
            if ea and eb and a[1] != b[1]:
                regs[inst.id] = TOP
                return None
            sym = a[1] if ea else b[1]
            regs[inst.id] = ('e', sym, ('c', pred, w, a[2] if ea else a, b[2] if eb else b))
            return None
        pa, pb = isinstance(a, Ptr), isinstance(b, Ptr)
        if pred in ('eq', 'ne'):
            if pa and pb:
                if a == b:
                    regs[inst.id] = int(pred == 'eq'); return None
                if self.distinct_objects(a, b):
                    regs[inst.id] = int(pred == 'ne'); return None
                regs[inst.id] = TOP
                return None
            if (pa and b == 0) or (pb and a == 0):
                p = a if pa else b
                if self.nonnull(st, p):
                    regs[inst.id] = int(pred == 'ne')
                    return None
                if p.base.startswith(('tok:', 'sum:')) and st.ghost.get(('zero', p.base)):
                    regs[inst.id] = int(pred == 'eq')          # this opaque integer was already found to be 0 on this path
                    return None
                # fork: p is NULL / p is not NULL
                s_nn = st
                s_null = st.fork()
                s_nn.nn.add(p)
                f.regs[inst.id] = int(pred == 'ne')
                f.idx += 1
                fz = s_null.top
                if p.base.startswith(('tok:', 'sum:')):
                    s_null.ghost[('zero', p.base)] = 1          # an opaque integer token was found equal to 0 on this path
                if p.base.startswith('heap:') and not p.path:
                    s_null.ghost.pop(('alloc', p.base), None)   # the allocation failed on this path: there is no block to account for
                if not p.base.startswith(('tok:', 'sum:')):
                    self.replace_value(s_null, p, 0)          # (an opaque integer keeps its name - the ghost records that it is 0)
                fz.regs[inst.id] = int(pred == 'eq')
                fz.idx += 1
                return [s_nn, s_null]
        regs[inst.id] = TOP
        return None

    def distinct_objects(self, a, b):
        def kind(p):
            return p.base.split(':', 1)[0]
        ka, kb = kind(a), kind(b)
        solid = ('glob', 'func', 'alloca', 'client')
        if ka in solid and kb in solid and a.base != b.base:
            return True
        # a block obtained from malloc in this activation (possibly NULL) is never one of the named objects
        if (ka == 'heap' and kb in solid) or (kb == 'heap' and ka in solid):
            return True
        if a.base == b.base and a.path != b.path and all(x[0] == 'f' for x in a.path + b.path):
            return True
        return False

    def nonnull(self, st, p):
        if p in st.nn:
            return True
        k = p.base.split(':', 1)[0]
        if k in ('glob', 'func', 'alloca', 'client', 'waiter'):
            return True
        if p.path:
            # address of a member of an object: NULL only if the object pointer is NULL and offset 0; nsync never tests those
            return Ptr(p.base, ()) in st.nn or any(x[0] == 'f' for x in p.path)
        return False

    def replace_value(self, st, old, new):
        for fr in st.frames:
            for k, v in fr.regs.items():
                if v == old:
                    fr.regs[k] = new
        for k, v in list(st.mem.items()):
            if v == old:
                st.mem[k] = new

    def do_gep(self, st, f, inst):
        base = self.val(f, inst.ops[0])
        if not isinstance(base, Ptr):
            return TOP
        path = list(base.path)
        if inst.id in self.liveness(f.fn).induction and len(inst.x['path']) == 1 and 's' not in inst.x['path'][0]:
            # a pointer cursor advanced round a loop: "some element of the array" - so that the state space stays finite
            while path and path[-1][0] in ('i', 'o'):
                path.pop()
            path.append(('i', '?'))
            return Ptr(base.base, tuple(path))
        for stp in inst.x['path']:
            if 's' in stp:
                path.append(('f', self.mod.field_name(stp['s'], stp['f']), stp['f']))
            else:
                iv = self.val(f, stp['i'])
                size = stp.get('p', stp.get('a'))
                first = 'p' in stp
                if isinstance(iv, int):
                    k = _sx(iv, 64) if iv >> 63 else iv
                    if first and k == 0:
                        continue
                    if stp is inst.x['path'][0] and inst.x['srcty'] == 'i8':
                        path.append(('o', k))
                    else:
                        path.append(('i', k))
                else:
                    path.append(('i', '?'))
        return Ptr(base.base, tuple(path))

    def cell_tracked(self, st, p):
        if p.base.startswith('alloca:'):
            return True
        if p.path and p.path[-1][0] == 'f' and p.path[-1][1] in self.tracked_fields and p.base.startswith(self.PRIVATE_BASES) \
                and all(x[0] == 'f' for x in p.path):
            return True          # owner-only field of an object this thread owns (not reached through a loaded pointer)
        return False

    def exec_load(self, st, f, inst):
        p = self.val(f, inst.ops[0])
        self.note_access(st, inst, p, 'load')
        regs = f.regs
        ty = inst.ty
        if inst.ord != 'na':
            wc, instance = self.word_of(p)
            if wc is not None:
                hold, spin = self.ghost_of(st, wc, instance)
                sym = '%s:%s' % (f.fn.name, inst.id)
                self.kill_sym(st, sym)
                st.S[sym] = self.universe(wc, hold, spin)
                regs[inst.id] = ('e', sym, ('s',))
                self.record(Record('wordload', inst, st, wc=wc, instance=instance, ord=inst.ord, entry=self.entry_name), ('wl', inst.fn.name, inst.id, st.stack()))
                return None
            regs[inst.id] = self.atomic_load_other(st, f, inst, p)
            return None
        if isinstance(p, Ptr):
            if p.base.startswith('glob:'):
                gv = self.global_value(p.base[5:], p.path)
                if gv is not None:
                    regs[inst.id] = gv
                    if isinstance(gv, Ptr):
                        st.nn.add(gv)
                    return None
            if (p in st.mem):
                v = st.mem[p]
                if v is TOP and ty.endswith('*'):
                    # name the unknown pointer so that a later NULL test refines the cell as well
                    v = Ptr('ld:%s:%s' % (f.fn.name, inst.id), ())
                    st.nn.discard(v)
                    st.mem[p] = v
                regs[inst.id] = v
                return None
        if ty.endswith('*'):
            sp = Ptr('ld:%s:%s' % (f.fn.name, inst.id), ())
            st.nn.discard(sp)
            regs[inst.id] = sp
            if isinstance(p, Ptr):
                self.on_ptr_load(st, f, inst, p, sp)
        else:
            v = self.on_int_load(st, f, inst, p) if isinstance(p, Ptr) else None
            regs[inst.id] = v if v is not None else TOP
        return None

    def on_int_load(self, st, f, inst, p):
        """a non-pointer value is loaded from untracked memory at p: a subclass may return an abstract value for it"""
        return None

    def atomic_load_other(self, st, f, inst, p):
        return TOP

    def on_ptr_load(self, st, f, inst, p, sp):
        """a pointer was loaded from untracked memory at p and named sp"""
        pass

    def kill_sym(self, st, sym):
        if sym not in st.S:
            return
        def k(v):
            if is_expr(v) and v[1] == sym:
                return TOP
            if is_agg(v):
                return ('agg', tuple(k(x) for x in v[1]))
            return v
        for fr in st.frames:
            for r, v in fr.regs.items():
                fr.regs[r] = k(v)
        for c, v in st.mem.items():
            st.mem[c] = k(v)
        for g, v in list(st.ghost.items()):
            if is_expr(v) and v[1] == sym:
                del st.ghost[g]
        del st.S[sym]

    def exec_store(self, st, f, inst):
        v = self.val(f, inst.ops[0])
        p = self.val(f, inst.ops[1])
        if inst.x.get('vol') and p == 0:
            return []          # ASSERT trap: the path ends
        self.note_access(st, inst, p, 'store')
        wc, instance = self.word_of(p)
        if wc is not None:
            return self.word_store(st, f, inst, wc, instance, v)
        if isinstance(p, Ptr) and self.cell_tracked(st, p) and inst.ord == 'na':
            st.mem[p] = v
        self.on_store(st, f, inst, p, v)
        return None

    def on_store(self, st, f, inst, p, v):
        pass

    def note_access(self, st, inst, p, kind):
        pass

    # ---- protocol word transitions -------------------------------------------------------------------------
    def effect(self, wc, e, n):
        W0, c0, s0 = wc.lockbits(e)
        W1, c1, s1 = wc.lockbits(n)
        return (W1 - W0, c1 - c0, s1 - s0)

    def new_ghost(self, hold, spin, eff):
        dW, dc, ds = eff
        if dW > 0:
            hold = 'W'
        elif dW < 0:
            hold = 'R' if dc == 1 else ('none' if hold != '?' else '?')
        elif dc == 1:
            hold = 'R'
        elif dc == -1:
            hold = 'none' if hold == 'R' else hold
        if ds > 0:
            spin = 1
        elif ds < 0:
            spin = 0
        return hold, spin

    def exec_cmpxchg(self, st, f, inst):
        p = self.val(f, inst.ops[0])
        E = self.val(f, inst.ops[1])
        N = self.val(f, inst.ops[2])
        self.note_access(st, inst, p, 'cas')
        wc, instance = self.word_of(p)
        fail = st.fork()
        ff = fail.top
        ff.regs[inst.id] = ('agg', (TOP, 0))
        ff.idx += 1
        if wc is None:
            self.on_cas_other(st, f, inst, p, E, N)
            f.regs[inst.id] = ('agg', (E, 1))
            f.idx += 1
            return [st, fail]
        hold, spin = self.ghost_of(st, wc, instance)
        uni = self.universe(wc, hold, spin)
        # (d, e, n) triples
        sym = None
        mixed = None
        for x in (E, N):
            if is_expr(x):
                if sym is not None and sym != x[1]:
                    mixed = (E[1], N[1])
                sym = x[1]
        if mixed is not None:
            return self.exec_cmpxchg_mixed(st, f, inst, wc, instance, hold, spin, uni, E, N, fail)
        if E is TOP or N is TOP or isinstance(E, Ptr) or isinstance(N, Ptr):
            raise AnalysisBroken('symex: CAS on %s at %s (%s) has an operand the engine cannot evaluate (expected=%r new=%r)'
                                 % (wc.name, inst.where(), st.callstring(), E, N))
        if sym is None:
            triples = [(None, E, N)] if E in uni else []
        else:
            te = E[2] if is_expr(E) else E
            tn = N[2] if is_expr(N) else N
            self.check_domain(wc, te, inst); self.check_domain(wc, tn, inst)
            triples = []
            for d in st.S[sym]:
                e = eval_tree(te, d)
                if e in uni:
                    triples.append((d, e, eval_tree(tn, d)))
        outs = [fail]
        if triples:
            groups = {}
            for t in triples:
                groups.setdefault(self.effect(wc, t[1], t[2]), []).append(t)
            for eff, ts in groups.items():
                s2 = st.fork() if len(groups) > 1 else st
                f2 = s2.top
                if sym is not None:
                    s2.S[sym] = frozenset(t[0] for t in ts)
                rec = Record('trans', inst, s2, wc=wc, instance=instance, how='cas', ord=inst.x['ord'], pairs=[(t[1], t[2]) for t in ts],
                             hold=hold, spin=spin, effect=eff, entry=self.entry_name, expected=E, newv=N)
                nh, ns = self.new_ghost(hold, spin, eff)
                self.set_lk(s2, wc, instance, nh, ns)
                if sym is not None and ns == 1 and (wc.name != 'mu' or nh == 'W'):
                    s2.ghost[('exact', wc.name, instance)] = ('e', sym, N[2] if is_expr(N) else N)
                else:
                    s2.ghost.pop(('exact', wc.name, instance), None)
                rec.new_hold, rec.new_spin = nh, ns
                self.on_transition(s2, rec)
                self.record(rec, ('tr', inst.fn.name, inst.id, s2.stack(), hold, spin, eff, frozenset(rec.pairs), self.rec_ctx(s2)))
                f2.regs[inst.id] = ('agg', (E, 1))
                f2.idx += 1
                outs.append(s2)
        return outs

    def exec_cmpxchg_mixed(self, st, f, inst, wc, instance, hold, spin, uni, E, N, fail):
        """the expected value comes from one load of the word and the new value from another (earlier) one: the CAS succeeds when the word
        equals the fresh value but installs a value that ignores every change made between the two loads.  All combinations of the two loads'
        possible values are transitions (bounded sample of a very large product); the record is marked so that rules can name the defect."""
        se, sn = E[1], N[1]
        self.check_domain(wc, E[2], inst); self.check_domain(wc, N[2], inst)
        De = sorted(d for d in st.S.get(se, ()) if eval_tree(E[2], d) in uni)
        Dn = sorted(st.S.get(sn, ()))
        if len(De) * len(Dn) > 16384:
            De = De[::max(1, len(De) // 128)]
            Dn = Dn[::max(1, len(Dn) // 128)]
        triples = [(d1, eval_tree(E[2], d1), eval_tree(N[2], d2)) for d1 in De for d2 in Dn]
        outs = [fail]
        groups = {}
        for t in triples:
            groups.setdefault(self.effect(wc, t[1], t[2]), []).append(t)
        for eff, ts in groups.items():
            s2 = st.fork() if len(groups) > 1 else st
            f2 = s2.top
            s2.S[se] = frozenset(t[0] for t in ts)
            rec = Record('trans', inst, s2, wc=wc, instance=instance, how='cas', ord=inst.x['ord'], pairs=sorted(set((t[1], t[2]) for t in ts)),
                         hold=hold, spin=spin, effect=eff, entry=self.entry_name, expected=E, newv=N, mixed=True)
            nh, ns = self.new_ghost(hold, spin, eff)
            self.set_lk(s2, wc, instance, nh, ns)
            s2.ghost.pop(('exact', wc.name, instance), None)
            rec.new_hold, rec.new_spin = nh, ns
            self.on_transition(s2, rec)
            self.record(rec, ('trm', inst.fn.name, inst.id, s2.stack(), hold, spin, eff, self.rec_ctx(s2)))
            f2.regs[inst.id] = ('agg', (E, 1))
            f2.idx += 1
            outs.append(s2)
        return outs

    def rec_ctx(self, st):
        return None

    def on_cas_other(self, st, f, inst, p, E, N):
        pass

    def check_domain(self, wc, tree, inst):
        """small-model side condition for the mutex word: the reader count is represented by the counts 0..7, which is
        exact for code that cuts the count field only at {nothing, its lowest bit(s), all of it}, adds/subtracts at most a few
        reader units and compares against small counts.  Any other constant combined with the word is outside the domain."""
        if not wc.small_model:
            return
        cs = set()
        if isinstance(tree, int):
            cs.add(tree)
        else:
            tree_consts(tree, cs)
        for c in cs:
            hi = (c >> wc.count_shift) & wc.count_mask
            if hi in (0, 1, 2, 3, wc.count_mask, wc.count_mask - 1):
                continue
            raise AnalysisBroken('symex: constant 0x%x at %s cuts the reader-count field in a way the representative-count domain does not cover'
                                 % (c, inst.where()))

    def word_store(self, st, f, inst, wc, instance, v):
        hold, spin = self.ghost_of(st, wc, instance)
        exact = st.ghost.get(('exact', wc.name, instance))
        pairs = None
        if isinstance(v, int) or is_expr(v):
            if exact is not None and (isinstance(v, int) or v[1] == exact[1]):
                sym = exact[1]
                tv = v[2] if is_expr(v) else v
                self.check_domain(wc, tv, inst)
                pairs = [(eval_tree(exact[2], d), eval_tree(tv, d)) for d in st.S.get(sym, ())]
            elif exact is None and isinstance(v, int):
                pairs = [(e, v) for e in self.universe(wc, hold, spin)]
        groups = {}
        if pairs:
            for (e, n) in pairs:
                groups.setdefault(self.effect(wc, e, n), []).append((e, n))
        else:
            groups[None] = []
        outs = []
        for eff, ps in groups.items():
            s2 = st.fork() if len(groups) > 1 else st
            f2 = s2.top
            if eff is not None and exact is not None and len(groups) > 1:
                keep = set(e for e, _ in ps)
                s2.S[exact[1]] = frozenset(d for d in s2.S[exact[1]] if eval_tree(exact[2], d) in keep)
            rec = Record('trans', inst, s2, wc=wc, instance=instance, how='store', ord=inst.ord, pairs=ps if eff is not None else None,
                         hold=hold, spin=spin, effect=eff, entry=self.entry_name, exact=exact is not None, value=v)
            nh, ns = self.new_ghost(hold, spin, eff) if eff is not None else (hold, spin)
            self.set_lk(s2, wc, instance, nh, ns)
            s2.ghost.pop(('exact', wc.name, instance), None)
            rec.new_hold, rec.new_spin = nh, ns
            self.on_transition(s2, rec)
            self.record(rec, ('st', inst.fn.name, inst.id, s2.stack(), hold, spin, eff, frozenset(ps) if eff is not None else None, self.rec_ctx(s2)))
            f2.idx += 1
            outs.append(s2)
        return outs

    # ---- control flow ----------------------------------------------------------------------------------------
    def split(self, st, c):
        """split a state on condition value c -> (true_state or None, false_state or None)"""
        if isinstance(c, int):
            return (st, None) if c & 1 else (None, st)
        if is_expr(c):
            sym, tree = c[1], c[2]
            S = st.S.get(sym)
            if S is None:
                return st, st.fork()
            t = frozenset(d for d in S if eval_tree(tree, d) & 1)
            fl = S - t
            if not fl:
                return st, None
            if not t:
                return None, st
            s2 = st.fork()
            st.S[sym] = t
            s2.S[sym] = fl
            return st, s2
        return st, st.fork()

    def exec_br(self, st, f, inst):
        tg = inst.x['targets']
        if len(tg) == 1:
            return [self.goto(st, f, tg[0])]
        c = self.val(f, inst.ops[0])
        t, fl = self.split(st, c)
        outs = []
        if t is not None:
            outs.append(self.goto(t, t.top, tg[0]))
        if fl is not None:
            outs.append(self.goto(fl, fl.top, tg[1]))
        return outs

    def exec_select(self, st, f, inst):
        c = self.val(f, inst.ops[0])
        if isinstance(c, int):
            f.regs[inst.id] = self.val(f, inst.ops[1] if c & 1 else inst.ops[2])
            return None
        t, fl = self.split(st, c)
        outs = []
        if t is not None:
            ft = t.top
            ft.regs[inst.id] = self.val(ft, inst.ops[1]); ft.idx += 1
            outs.append(t)
        if fl is not None:
            ff = fl.top
            ff.regs[inst.id] = self.val(ff, inst.ops[2]); ff.idx += 1
            outs.append(fl)
        return outs

    def do_return(self, st, f, inst, v):
        self.on_return(st, f.fn, v)
        # drop allocas of this frame
        pre = 'alloca:%s:' % f.fn.name
        suf = ':%d' % f.depth
        for k in [k for k in st.mem if k.base.startswith(pre) and k.base.endswith(suf)]:
            del st.mem[k]
        st.frames.pop()
        if not st.frames:
            if not st.prefix:
                self.record(Record('exit', inst, st, value=v, entry=self.entry_name, fn=f.fn.name), ('exit', inst.id, repr(v), tuple(sorted(st.ghost.items(), key=repr))))
            st.frames = []
            st.trace = (v,)
            return [st]
        c = st.top
        call = f.call
        c.regs[call.id] = self.inlined_result(st, f.fn, call, v if v is not None else TOP)
        c.idx += 1
        return [st]

    def inlined_result(self, st, fn, call, v):
        """extension point: the value an interpreted callee hands back to its call site"""
        return v

    def exec_call(self, st, f, inst):
        callee = inst.callee
        args = [self.val(f, a) for a in inst.ops]
        if callee is None:
            cv = self.val(f, inst.x['cv'])
            if isinstance(cv, Ptr) and cv.base.startswith('func:') and not cv.path:
                callee = cv.base[5:]
            else:
                self.record(Record('icall', inst, st, target=cv, args=args, entry=self.entry_name), ('ic', inst.fn.name, inst.id, st.stack(), tuple(sorted(st.ghost.items(), key=repr))))
                r = self.on_indirect_call(st, f, inst, cv, args)
                if r is not None:
                    return r
                self.havoc_args(st, args)
                f.regs[inst.id] = self.unknown_ret(st, f, inst)
                return None
        if callee.startswith('llvm.'):
            if callee.startswith('llvm.memset') or callee.startswith('llvm.memcpy') or callee.startswith('llvm.memmove'):
                self.note_access(st, inst, args[0], 'store')
                self.havoc_args(st, args[:1])
            elif callee.startswith('llvm.va_') or callee.startswith('llvm.lifetime') or callee.startswith('llvm.dbg') or callee.startswith('llvm.assume') \
                    or callee.startswith('llvm.expect') or callee.startswith('llvm.stack'):
                pass
            else:
                pass
            if callee.startswith('llvm.expect') and args:
                f.regs[inst.id] = args[0]
            else:
                f.regs[inst.id] = TOP
            return None
        if callee in self.noret:
            self.record(Record('panic', inst, st, callee=callee, entry=self.entry_name), ('panic', inst.fn.name, inst.id, st.stack()))
            return []
        r = self.on_call(st, inst, callee, args)
        if r is not None:
            outs = []
            for s2, rv in r:
                f2 = s2.top
                f2.regs[inst.id] = rv
                f2.idx += 1
                outs.append(s2)
            return outs
        h = self.opaque.get(callee)
        target = self.mod.func(callee)
        if h is None and target is not None and not target.decl and len(st.frames) < self.MAX_DEPTH and callee not in st.stack() \
                and (self.inline_filter is None or self.inline_filter(callee)):
            # inline
            self.record(Record('call', inst, st, callee=callee, args=args, entry=self.entry_name, inlined=True),
                        ('call', inst.fn.name, inst.id, st.stack(), tuple(sorted(st.ghost.items(), key=repr)), self.rec_ctx(st)))
            self.on_enter(st, inst, callee, args)
            lv = self.liveness(f.fn)
            keep = lv.live_after(inst)
            for k in list(f.regs):
                if k not in keep:
                    del f.regs[k]
            depth = len(st.prefix) + len(st.frames)
            regs = {}
            for a, v in zip(target.args, args):
                regs[a['id']] = v
            key = self.memo_key(st, callee, args) if self.memoizable(callee) else None
            if key is None:
                st.frames.append(Frame(target, target.entry.id, 0, None, regs, inst, depth))
                return [st]
            summ = self.memo.get(key)
            if summ is None:
                kmem = dict(key[3]); kgh = dict(key[2])
                sub = State([Frame(target, target.entry.id, 0, None, regs, inst, depth)], {}, kmem, kgh, set(st.nn), (),
                            st.stack(), st.pcalls + tuple(fr.call for fr in st.frames))
                # the callee frame's 'call' is None: its return ends the sub-exploration
                exits = self.explore(sub)
                summ = []
                seen = set()
                for x in exits:
                    sm = self.make_summary(x)
                    k2 = (tuple(sorted(sm[0].items(), key=repr)), tuple(sorted(sm[1].items(), key=repr)), tuple(sorted(sm[2], key=repr)), repr(sm[3]),
                          tuple(sorted(sm[4].items())))
                    if k2 in seen:
                        continue
                    seen.add(k2)
                    summ.append(sm)
                self.memo[key] = summ
            outs = []
            for ent in summ:
                s2 = st.fork() if len(summ) > 1 else st
                rv = self.apply_summary(s2, args, ent)
                f2 = s2.top
                f2.regs[inst.id] = rv if rv is not None else TOP
                f2.idx += 1
                outs.append(s2)
            return outs
        for a in args:
            if isinstance(a, Ptr):
                self.note_access(st, inst, a, 'call-arg')
        self.record(Record('call', inst, st, callee=callee, args=args, entry=self.entry_name, inlined=False), ('call', inst.fn.name, inst.id, st.stack(), tuple(sorted(st.ghost.items(), key=repr)), self.rec_ctx(st)))
        if callable(h):
            r = h(self, st, f, inst, args)
            if r is not None:
                return r
        self.havoc_args(st, args)
        f.regs[inst.id] = self.unknown_ret(st, f, inst)
        return None

    def on_indirect_call(self, st, f, inst, cv, args):
        return None

    PRIVATE_BASES = ('arg:', 'alloca:', 'waiter:', 'client:')

    def _framed(self, base, bases):
        """True if an object with this base cannot be named by a callee that was given only `bases`"""
        return base.startswith(self.PRIVATE_BASES) and base not in bases

    CALLER_ONLY_GHOST = ()

    def memoizable(self, callee):
        return callee not in self.no_memo

    def _ghost_framed(self, k, bases):
        if isinstance(k, tuple) and len(k) == 3 and isinstance(k[2], Ptr) and self._framed(k[2].base, bases):
            return True
        return k in self.CALLER_ONLY_GHOST

    def memo_key(self, st, callee, args):
        """key for a function summary, or None when the call depends on symbolic word values of the caller.
        Frame rule: objects the callee cannot name (caller-private bases not passed as arguments) are left out of the key and
        are preserved across the call."""
        for a in args:
            if is_expr(a) or is_agg(a) or (isinstance(a, tuple) and not isinstance(a, Ptr)):
                return None
        bases = set(a.base for a in args if isinstance(a, Ptr))
        mem = []
        for k, v in st.mem.items():
            if self._framed(k.base, bases):
                continue
            if is_expr(v):
                return None
            if isinstance(v, Ptr):
                bases.add(v.base)
            mem.append((k, v))
        gh = []
        for k, v in st.ghost.items():
            if self._ghost_framed(k, bases):
                continue
            if is_expr(v):
                return None
            gh.append((k, v))
        live = set(a for a in args if isinstance(a, Ptr))
        return (callee, tuple(args), tuple(sorted(gh, key=repr)), tuple(sorted(mem, key=repr)),
                tuple(sorted((p for p in st.nn if p in live), key=repr)))

    def make_summary(self, x):
        syms = set()
        def fv(v):
            if is_expr(v):
                syms.add(v[1])
            elif is_agg(v):
                for y in v[1]:
                    fv(y)
        fv(x.trace[0])
        for v in x.ghost.values():
            fv(v)
        for v in x.mem.values():
            fv(v)
        return (dict(x.ghost), dict(x.mem), set(x.nn), x.trace[0], {s: x.S[s] for s in syms if s in x.S})

    def apply_summary(self, st, args, summ_entry):
        gh, mem, nn, rv, S = summ_entry
        for sym, vals in S.items():
            self.kill_sym(st, sym)
        for sym, vals in S.items():
            st.S[sym] = vals
        bases = set(a.base for a in args if isinstance(a, Ptr))
        for k, v in st.mem.items():
            if not self._framed(k.base, bases) and isinstance(v, Ptr):
                bases.add(v.base)
        newmem = {k: v for k, v in st.mem.items() if self._framed(k.base, bases)}
        newmem.update(mem)
        newgh = {k: v for k, v in st.ghost.items() if self._ghost_framed(k, bases)}
        newgh.update(gh)
        st.mem = newmem
        st.ghost = newgh
        st.nn = set(nn) | st.nn
        return rv

    def unknown_ret(self, st, f, inst):
        if inst.ty.endswith('*'):
            p = Ptr('ret:%s:%s' % (f.fn.name, inst.id), ())
            st.nn.discard(p)
            return p
        return TOP

    def havoc_args(self, st, args):
        for a in args:
            if isinstance(a, Ptr) and a.base.startswith('alloca:'):
                for k in [k for k in st.mem if k.base == a.base]:
                    del st.mem[k]

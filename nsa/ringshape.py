"""Engine E5b: shape analysis of the same-condition rings that overlay the mutex waiter queue (check C06.R6).

Every `waiter` carries two list elements: nw.q (its place in the mutex queue / a wake list) and same_condition (a ring linking neighbours in
the queue that have the same non-NULL wait condition).  Invariant J of a queue Q:
    the same_condition rings partition Q into *runs*: each ring, read along .next, is a contiguous stretch of Q in queue order.
(The other half - ring members have pairwise equal conditions - follows from J plus "rings are joined only under WAIT_CONDITION_EQ", rule R4.)
The unlocker's scan relies on J when it skips "to the end of the same_condition group" after one false evaluation.

The abstract heap is the one of nsa.shape (named elements and summary segments, next/prev edges), with two families of rings in one heap:
the vertices `w.q` and `w.sc` of the named waiters, paired summary segments `SMk.q` / `SMk.sc` for the untouched middle of a run, and q-only
segments `SL.q` / `SR.q` for the untouched rest of the queue.  Pointers are values of a small algebra (element vertex, waiter object, embedded
nsync_waiter_s, field address, opaque loaded value); the container-of arithmetic of DLL_WAITER / DLL_WAITER_SAMECOND is evaluated on it, with
the offset of `nw` in `waiter` taken from the IR's struct layout.  Values the analysis does not model (condition function pointers and
arguments, remove counts, results of the client's equality callback) are opaque: a branch on them forks, so the merge decision is explored both
ways.  The three functions are loop-free apart from the remove-count CAS loop (a CAS on an opaque cell: modelled as succeeding), so every
(function, precondition shape) pair is interpreted once per path; summary segments make the verdicts hold for all queue lengths."""
from . import ir as IR, util
from .shape import Heap, NEXT, PREV, CONT, expand
from .report import AnalysisBroken

UNK = ('unk',)

class Stop(Exception):
    pass

class RingInterp:
    def __init__(self, mod):
        self.mod = mod
        self.wrappers = set(util.cas_wrappers(mod))
        self.noret = util.noreturn_functions(mod)
        rs = mod.raw_structs.get('struct.waiter')
        self.nw_off = None
        if rs:
            for k, e in enumerate(rs['elts']):
                if mod.field_name('struct.waiter', k) == 'waiter.nw':
                    self.nw_off = e['off']
        if self.nw_off is None:
            raise AnalysisBroken('ringshape: offset of waiter.nw not found in the struct layout')
        self.steps = 0

    # ---- values
    def const(self, ref):
        if IR.is_null(ref):
            return None
        if IR.is_int(ref):
            return ('int', IR.ival(ref))
        k = ref.get('k') if isinstance(ref, dict) else None
        if k == 'global':
            return ('glob', ref['n'])
        if k == 'undef':
            return UNK
        if k == 'cexpr' and ref.get('op') in ('bitcast', 'getelementptr'):
            return self.const(ref['ops'][0])
        return UNK

    def val(self, regs, ref):
        if isinstance(ref, str):
            if ref not in regs:
                raise AnalysisBroken('ringshape: use of an unevaluated value %s' % ref)
            return regs[ref]
        return self.const(ref)

    def gep(self, fn, inst, regs):
        base = self.val(regs, inst.ops[0])
        for st in self.mod.gep_fields(inst):
            if st[0] == 'f':
                f = st[1]
                if isinstance(base, str):
                    if f in (NEXT, PREV, CONT):
                        base = ('lnk', base, f)
                    else:
                        raise AnalysisBroken('ringshape: field %s of a list element at %s' % (f, inst.where()))
                elif isinstance(base, tuple) and base[0] == 'wt':
                    if f == 'waiter.same_condition':
                        base = base[1] + '.sc'
                    elif f == 'waiter.nw':
                        base = ('nw', base[1])
                    else:
                        base = ('fld', base[1], f)
                elif isinstance(base, tuple) and base[0] == 'nw':
                    if f == 'nsync_waiter_s.q':
                        base = base[1] + '.q'
                    else:
                        base = ('fld', base[1], f)
                elif isinstance(base, tuple) and base[0] == 'fld':
                    base = ('fld', base[1], base[2] + '/' + f)
                elif base is None:
                    raise Stop('NULL dereference at %s' % inst.where())
                else:
                    base = UNK
            elif st[0] == 'i':
                off = self.val(regs, st[1]) if not IR.is_int(st[1]) else ('int', IR.ival(st[1]))
                if isinstance(base, tuple) and base[0] == 'nw' and off[0] == 'int' and inst.x.get('srcty') == 'i8' and off[1] * st[2] == -self.nw_off:
                    base = ('wt', base[1])
                elif off == ('int', 0):
                    pass
                else:
                    base = UNK
            else:
                base = UNK
        return base

    # ---- interpretation
    def call(self, fname, args, heap):
        fn = self.mod.func(fname)
        if fn is None or fn.decl:
            raise AnalysisBroken('ringshape: %s not found' % fname)
        out = []
        self._run(fn, dict(zip([a['id'] for a in fn.args], args)), heap, fn.entry.id, None, 0, out, 0, {})
        return out

    def _run(self, fn, regs, heap, bid, prev, start, out, depth, visits):
        self.steps += 1
        if depth > 400 or self.steps > 2000000:
            raise AnalysisBroken('ringshape: %s does not terminate on the abstract heap' % fn.name)
        blk = fn.bmap[bid]
        regs = dict(regs)
        if start == 0:
            visits = dict(visits)
            visits[bid] = visits.get(bid, 0) + 1
            if visits[bid] > 3:
                return          # a loop on opaque data (e.g. a CAS retry): further iterations repeat the same abstract state
            ph = {}
            for i in blk.insts:
                if i.op == 'phi':
                    for v, pb in i.ops:
                        if pb == prev:
                            ph[i.id] = self.val(regs, v)
            regs.update(ph)
        for i in blk.insts[start:]:
            op = i.op
            if op in ('dbg', 'phi'):
                continue
            if op in ('bitcast', 'addrspacecast', 'zext', 'sext', 'trunc', 'ptrtoint', 'inttoptr', 'freeze'):
                regs[i.id] = self.val(regs, i.ops[0])
            elif op == 'getelementptr':
                try:
                    regs[i.id] = self.gep(fn, i, regs)
                except Stop as s:
                    out.append((heap, ('error', str(s))))
                    return
            elif op == 'load':
                a = self.val(regs, i.ops[0])
                if a is None:
                    out.append((heap, ('error', 'NULL dereference at %s' % i.where())))
                    return
                if isinstance(a, tuple) and a[0] == 'lnk':
                    n, fld = a[1], a[2]
                    if fld == CONT:
                        w, kind = n.rsplit('.', 1) if '.' in n else (n, '?')
                        if kind == 'q' and n not in heap.seg:
                            regs[i.id] = ('nw', w)
                        elif kind == 'sc' and n not in heap.seg:
                            regs[i.id] = ('wt', w)
                        else:
                            raise AnalysisBroken('ringshape: container of an element inside a summary segment is read at %s (shape outside the domain)' % i.where())
                        continue
                    m = heap.nxt if fld == NEXT else heap.prv
                    if n not in m:
                        raise AnalysisBroken('ringshape: load through unknown element %r at %s' % (n, i.where()))
                    t = m[n]
                    if t in heap.seg:
                        for h2, f in materialise(heap, t, front=(fld == NEXT)):
                            r2 = dict(regs)
                            r2[i.id] = f
                            self._run(fn, r2, h2, bid, prev, i.idx + 1, out, depth + 1, visits)
                        return
                    regs[i.id] = t
                elif isinstance(a, tuple) and a[0] == 'fld':
                    regs[i.id] = ('val', a[1], a[2])
                elif isinstance(a, tuple) and a[0] == 'glob':
                    regs[i.id] = ('gval', a[1])
                else:
                    regs[i.id] = UNK
            elif op == 'store':
                a = self.val(regs, i.ops[1])
                v = self.val(regs, i.ops[0])
                if a is None:
                    out.append((heap, ('error', 'NULL dereference at %s' % i.where())))
                    return
                if isinstance(a, tuple) and a[0] == 'lnk':
                    n, fld = a[1], a[2]
                    heap = heap.copy()
                    if fld == CONT:
                        heap.written.add((n, 'container'))
                        continue
                    if not (v is None or isinstance(v, str)):
                        out.append((heap, ('error', 'a link of %s is overwritten with a value that is not a list element at %s' % (n, i.where()))))
                        return
                    (heap.nxt if fld == NEXT else heap.prv)[n] = v
                    heap.written.add((n, fld))
                # stores to other fields (remove_count, ...) do not concern the shape
            elif op == 'icmp':
                a, b = self.val(regs, i.ops[0]), self.val(regs, i.ops[1])
                pred = i.x['pred']
                def known(x):
                    return x is None or isinstance(x, str) or (isinstance(x, tuple) and x[0] in ('int', 'nw', 'wt', 'glob'))
                if known(a) and known(b) and pred in ('eq', 'ne'):
                    regs[i.id] = ('int', int((a == b) == (pred == 'eq')))
                elif a == b and a != UNK and pred in ('eq', 'ne'):
                    regs[i.id] = ('int', int(pred == 'eq'))
                elif known(a) and known(b) and a[0] == 'int' and b[0] == 'int':
                    x, y = a[1], b[1]
                    regs[i.id] = ('int', int({'sgt': x > y, 'sge': x >= y, 'slt': x < y, 'sle': x <= y, 'ugt': x > y, 'uge': x >= y, 'ult': x < y, 'ule': x <= y}[pred]))
                else:
                    regs[i.id] = UNK
            elif op in ('add', 'sub', 'mul', 'and', 'or', 'xor', 'shl', 'lshr', 'ashr'):
                a, b = self.val(regs, i.ops[0]), self.val(regs, i.ops[1])
                if isinstance(a, tuple) and isinstance(b, tuple) and a[0] == 'int' and b[0] == 'int':
                    x, y = a[1], b[1]
                    if i.ty == 'i1':
                        x, y = x & 1, y & 1
                    r = {'add': x + y, 'sub': x - y, 'mul': x * y, 'and': x & y, 'or': x | y, 'xor': x ^ y, 'shl': x << (y & 63), 'lshr': (x & 0xFFFFFFFFFFFFFFFF) >> (y & 63), 'ashr': x >> (y & 63)}[op]
                    regs[i.id] = ('int', r & 1 if i.ty == 'i1' else r)
                elif op == 'and' and (a == ('int', 0) or b == ('int', 0)):
                    regs[i.id] = ('int', 0)
                else:
                    regs[i.id] = UNK
            elif op == 'select':
                c = self.val(regs, i.ops[0])
                if isinstance(c, tuple) and c[0] == 'int':
                    regs[i.id] = self.val(regs, i.ops[1] if c[1] & 1 else i.ops[2])
                else:
                    for ref in (i.ops[1], i.ops[2]):
                        r2 = dict(regs)
                        r2[i.id] = self.val(regs, ref)
                        self._run(fn, r2, heap, bid, prev, i.idx + 1, out, depth + 1, visits)
                    return
            elif op == 'br':
                tg = i.x['targets']
                if len(tg) == 1:
                    self._run(fn, regs, heap, tg[0], bid, 0, out, depth + 1, visits)
                    return
                c = self.val(regs, i.ops[0])
                if isinstance(c, tuple) and c[0] == 'int':
                    self._run(fn, regs, heap, tg[0] if c[1] & 1 else tg[1], bid, 0, out, depth + 1, visits)
                else:
                    for t in dict.fromkeys(tg):
                        self._run(fn, regs, heap, t, bid, 0, out, depth + 1, visits)
                return
            elif op == 'switch':
                for t in dict.fromkeys([i.x['targets'][0]] + [tb for _, tb in i.x['cases']]):
                    self._run(fn, regs, heap, t, bid, 0, out, depth + 1, visits)
                return
            elif op == 'call':
                callee = i.callee
                if callee is None:
                    regs[i.id] = UNK          # the client's equality callback
                    continue
                if callee.startswith('llvm.'):
                    regs[i.id] = self.val(regs, i.ops[0]) if callee.startswith('llvm.expect') and i.ops else UNK
                    continue
                if callee in self.noret:
                    return                    # panic: the path ends
                if callee in self.wrappers:
                    regs[i.id] = ('int', 1)   # CAS on an opaque cell (remove_count): taken as succeeding; a failure only repeats the loop
                    continue
                tgt = self.mod.func(callee)
                if tgt is None or tgt.decl:
                    regs[i.id] = UNK
                    continue
                args = [self.val(regs, o) for o in i.ops]
                sub = []
                self._run(tgt, dict(zip([a['id'] for a in tgt.args], args)), heap, tgt.entry.id, None, 0, sub, depth + 1, {})
                for h2, rv in sub:
                    if isinstance(rv, tuple) and rv and rv[0] == 'error':
                        out.append((h2, rv))
                        continue
                    r2 = dict(regs)
                    r2[i.id] = rv
                    self._run(fn, r2, h2, bid, prev, i.idx + 1, out, depth + 1, visits)
                return
            elif op == 'cmpxchg':
                regs[i.id] = ('agg', (UNK, ('int', 1)))
            elif op == 'extractvalue':
                a = self.val(regs, i.ops[0])
                regs[i.id] = a[1][i.x['idx'][0]] if isinstance(a, tuple) and a[0] == 'agg' else UNK
            elif op == 'ret':
                out.append((heap, self.val(regs, i.ops[0]) if i.ops else None))
                return
            elif op == 'unreachable':
                return
            elif op in ('alloca', 'fence', 'atomicrmw', 'insertvalue'):
                regs[i.id] = UNK
            else:
                raise AnalysisBroken('ringshape: unsupported instruction %s at %s' % (op, i.where()))

def _mat(h, s, f, single, front):
    """name the first (front) / last element of segment vertex s as f in heap h (in place); same edge conventions as shape.Heap.materialise"""
    o = h._origin(s)
    ps = h.pieces[o]
    k = ps.index(s)
    if single:
        h.nxt[f], h.prv[f] = h.nxt.pop(s), h.prv.pop(s)
        for m in (h.nxt, h.prv):
            for kk, v in list(m.items()):
                if v == s:
                    m[kk] = f
        h.seg.discard(s)
        ps[k] = f
    elif front:
        old_prev = h.prv[s]
        for kk, v in list(h.nxt.items()):
            if v == s:
                h.nxt[kk] = f
        h.prv[f] = old_prev
        h.nxt[f] = s
        h.prv[s] = f
        ps.insert(k, f)
    else:
        old_next = h.nxt[s]
        for kk, v in list(h.prv.items()):
            if v == s:
                h.prv[kk] = f
        h.nxt[f] = old_next
        h.prv[f] = s
        h.nxt[s] = f
        ps.insert(k + 1, f)

def materialise(heap, t, front):
    """alternatives (heap, vertex) for the element at one end of segment t.  A run-middle summary SMk stands for whole waiters: its q and sc
    segments are split together, so that the new element's container (the waiter) has both of its list elements named."""
    item, fam = t.rsplit('.', 1) if t.count('.') == 1 else (None, None)
    if item in ('SL', 'SR') and fam == 'q':
        # an element of an opaque stretch of the queue: a whole waiter whose same_condition ring is unknown - a ring of its own, or linked
        # to partners inside the stretch (represented by an sc summary that nothing else names)
        out = []
        for single in (True, False):
            for lonely in (True, False):
                h = heap.copy()
                h.fresh += 1
                w = '%s_%s%d' % (item, 'f' if front else 'l', h.fresh)
                _mat(h, t, w + '.q', single, front)
                h.add_ring([w + '.sc'] if lonely else [w + '.sc', 'SO_' + w + '.sc'])
                out.append((h, w + '.q'))
        return out
    if item is None or not item.startswith('SM') or (item + '.q') not in heap.seg or (item + '.sc') not in heap.seg:
        return heap.materialise(t, front)
    out = []
    for single in (True, False):
        h = heap.copy()
        h.fresh += 1
        w = '%s_%s%d' % (item, 'f' if front else 'l', h.fresh)
        for fm in ('q', 'sc'):
            _mat(h, item + '.' + fm, w + '.' + fm, single, front)
        out.append((h, w + '.' + fam))
    return out

# ---- abstract queues ---------------------------------------------------------------------------------------------------

def q_of(item):
    return item + '.q'
def sc_of(item):
    return item + '.sc'

def make_heap(runs):
    """runs: list of runs in queue order; a run is a list of items; an item is a waiter name ('a', 'p', ...), a run-middle summary 'SMk'
    (one or more waiters of that run, untouched), or - as a run of its own - an opaque stretch of the queue 'SL' / 'SR' (its rings are
    self-contained and never reached).  Returns the heap."""
    h = Heap()
    qitems = [q_of(x) for r in runs for x in r]
    if qitems:
        h.add_ring(qitems)
    for r in runs:
        if len(r) == 1 and r[0] in ('SL', 'SR'):
            continue
        h.add_ring([sc_of(x) for x in r])
    return h

def queue_seq(heap, handle):
    """(sequence of q vertices from the first element, well-formed?) for the list whose last element is `handle` (None = empty)"""
    if handle is None:
        return [], True
    first = heap.nxt.get(handle)
    if first is None:
        return [], False
    return heap.ring_from(first)

def ring_ok(heap, items):
    """the sc elements of `items` (already expanded) form one ring in this order"""
    n = len(items)
    for k, it in enumerate(items):
        if heap.nxt.get(it) != items[(k + 1) % n] or heap.prv.get(items[(k + 1) % n]) != it:
            return False
    return True

def check_state(heap, handle, runs):
    """does the heap hold exactly the queue `runs` (list of runs) with handle = its last element?  returns None or a description of the difference"""
    want_q = expand(heap, [q_of(x) for r in runs for x in r])
    seq, ok = queue_seq(heap, handle)
    if not ok:
        return 'the queue is not a well-formed ring any more'
    if seq != want_q:
        return 'queue is %s, expected %s' % (seq, want_q)
    if want_q and handle != want_q[-1]:
        return 'the list handle is %s, expected the last element %s' % (handle, want_q[-1])
    for r in runs:
        if len(r) == 1 and r[0] in ('SL', 'SR'):
            continue
        items = expand(heap, [sc_of(x) for x in r])
        if not ring_ok(heap, items):
            return 'the same_condition ring of the run %s is not that run in queue order (found next-chain %s)' % (r, heap.ring_from(items[0])[0][:8])
    return None

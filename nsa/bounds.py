"""Engine E4 (buffer instance): proof that every store through the debug emit buffer lies in [0, len).

The buffer is described by a struct with a pointer field `start`, a length field `len` and a cursor `pos` (struct emit_buf in
internal/debug.c; the fields are found by their debug-info names).  Proof structure:
  (W) who-may-write: `start` and `len` are stored only by the initialiser (the function that also stores pos = 0); `pos` is stored
      only as the constant 0 or as (pos + 1) on the true edge of (pos < len) with the compared and incremented loads being the
      same value.  Hence 0 <= pos <= len is an invariant (len >= 0 is the caller's contract).
  (S) every store whose address derives from a load of `start` has one of the proven shapes:
        S1  start[pos]           with that pos load dominated by the true edge of (pos < len), same value as the compared load;
        S2  *--p in a loop       where p is a pointer phi starting at start + len, decremented by one per store, and the store is
                                 dominated by the true edge of (p > start)   (so start <= p-1 < start + len);
        S3  memcpy/memset(start + (len - C), .., n) with constant n <= C on the true edge of (len >= C).
      Anything else through the buffer pointer is reported as not provably in bounds.
No other function may form addresses from `start` (it is only returned to the caller)."""
from . import ir as IR
from . import util
from .cfg import cfg_of, paths_avoiding
from .report import Violation, AnalysisBroken

BUF = 'emit_buf'
F_START, F_LEN, F_POS = BUF + '.start', BUF + '.len', BUF + '.pos'

def _field_of(mod, fn, addr):
    ac = util.addr_class(mod, fn, addr)
    return util.last_field(ac), ac

def buffer_writers(mod):
    """functions that store through a pointer loaded from emit_buf.start (the bounded writer)"""
    out = set()
    for fn in mod.defined.values():
        for i in fn.real_insts():
            if i.op == 'store':
                root = _start_root(mod, fn, i.ops[1])
                if root is not None:
                    out.add(fn.name)
    return out

def _start_root(mod, fn, ref, depth=0):
    """if the pointer ref is computed from a load of emit_buf.start (through GEPs/bitcasts/phis), return that load"""
    seen = set()
    work = [ref]
    while work:
        r = work.pop()
        if not isinstance(r, str) or r in seen or r not in fn.imap:
            continue
        seen.add(r)
        i = fn.imap[r]
        if i.op == 'load':
            f, _ = _field_of(mod, fn, i.ops[0])
            if f == F_START:
                return i
            continue
        if i.op in ('getelementptr', 'bitcast'):
            work.append(i.ops[0])
        elif i.op == 'phi':
            work.extend(v for v, _ in i.ops)
        elif i.op == 'select':
            work.extend(i.ops[1:])
    return None

def _strip_ext(fn, ref):
    while isinstance(ref, str) and ref in fn.imap and fn.imap[ref].op in ('sext', 'zext'):
        ref = fn.imap[ref].ops[0]
    return ref

def _load_of(mod, fn, ref, field):
    ref = _strip_ext(fn, ref)
    if isinstance(ref, str) and ref in fn.imap and fn.imap[ref].op == 'load':
        f, ac = _field_of(mod, fn, fn.imap[ref].ops[0])
        if f == field:
            return fn.imap[ref]
    return None

def _is_killer(mod, fn, i):
    if i.op == 'store':
        f, _ = _field_of(mod, fn, i.ops[1])
        return f is not None and f.startswith(BUF + '.')
    if i.op == 'call':
        return not (i.callee or '').startswith('llvm.dbg')
    return False

def _same_value(mod, fn, l1, l2):
    """two loads of the same field of the same object, l1 before l2, nothing in between can change the field"""
    if l1 is l2:
        return True
    a1 = util.addr_class(mod, fn, l1.ops[0]); a2 = util.addr_class(mod, fn, l2.ops[0])
    if a1['base'] != a2['base'] or a1['path'] != a2['path']:
        return False
    cfg = cfg_of(fn)
    if not cfg.inst_dominates(l1, l2):
        return False
    # instructions on some path from l1 to l2 (first arrival at l2)
    from .cfg import inst_succs
    fwd = set()
    work = inst_succs(l1)
    while work:
        i = work.pop()
        k = (i.block.id, i.idx)
        if k in fwd or i is l2:
            continue
        fwd.add(k)
        work.extend(inst_succs(i))
    # of those, the ones from which l2 is reachable
    can = {}
    def reaches(i, seen):
        k = (i.block.id, i.idx)
        if i is l2:
            return True
        if k in can:
            return can[k]
        if k in seen:
            return False
        seen.add(k)
        r = any(reaches(j, seen) for j in inst_succs(i))
        can[k] = r
        return r
    import sys
    sys.setrecursionlimit(10000)
    for b in fn.blocks:
        for i in b.insts:
            if (b.id, i.idx) in fwd and _is_killer(mod, fn, i) and reaches(i, set()):
                return False
    return True

def _guards(fn, inst):
    """branches whose true or false edge dominates inst: list of (cond_inst, sense)"""
    cfg = cfg_of(fn)
    out = []
    for b in fn.blocks:
        t = b.term
        if t.op == 'br' and len(t.x['targets']) == 2 and isinstance(t.ops[0], str) and t.ops[0] in fn.imap:
            for k, sense in ((0, True), (1, False)):
                tgt = t.x['targets'][k]
                if tgt != t.x['targets'][1 - k] and fn.bmap[tgt].preds == [b.id] and cfg.dominates(tgt, inst.block.id):
                    _expand(fn, fn.imap[t.ops[0]], sense, out, 0)
        elif t.op == 'switch' and t.ops and t.x.get('cases'):
            # a case edge is the comparison `value == constant` (a case block reached by one edge only); the default edge is its negation for
            # every case
            cases = t.x['cases']
            dflt = (t.x.get('targets') or [None])[0]
            for cval, tgt in cases:
                if [x for x in cases if x[1] == tgt] == [[cval, tgt]] and tgt != dflt and fn.bmap[tgt].preds == [b.id] and cfg.dominates(tgt, inst.block.id):
                    out.append((_switch_cmp(fn, t, cval), True))
            if dflt is not None and dflt not in [x[1] for x in cases] and fn.bmap[dflt].preds == [b.id] and cfg.dominates(dflt, inst.block.id):
                for cval, tgt in cases:
                    out.append((_switch_cmp(fn, t, cval), False))
    return out

def _switch_cmp(fn, t, cval):
    """the comparison a switch makes on one of its case edges, as a synthetic icmp"""
    return IR.Inst({'id': '%s.case%s' % (t.id, cval), 'op': 'icmp', 'ty': 'i1', 'ops': [t.ops[0], {'k': 'int', 'v': cval, 'w': 32}], 'pred': 'eq', 'loc': t.loc}, t.block, fn, t.idx)

def _expand(fn, c, sense, out, depth):
    """a && b is lowered to phi i1 [false, ...], [b, ...]: the phi being true implies its only non-constant arm was true
    (dually for || and false)"""
    out.append((c, sense))
    if depth > 4:
        return
    if c.op == 'phi' and c.ty == 'i1':
        nonconst = [v for v, _ in c.ops if isinstance(v, str)]
        consts = [IR.ival(v) & 1 for v, _ in c.ops if IR.is_int(v)]
        if len(nonconst) == 1 and nonconst[0] in fn.imap and all(k == (0 if sense else 1) for k in consts):
            _expand(fn, fn.imap[nonconst[0]], sense, out, depth + 1)
    elif c.op == 'xor' and c.ty == 'i1' and any(IR.is_int(o) and IR.ival(o) & 1 for o in c.ops):
        v = [o for o in c.ops if isinstance(o, str)]
        if v and v[0] in fn.imap:
            _expand(fn, fn.imap[v[0]], not sense, out, depth + 1)

def _norm_cmp(fn, c, sense):
    """normalise an icmp (with branch sense) to (pred, lhs, rhs) meaning lhs pred rhs holds"""
    if c.op != 'icmp':
        return None
    pred = c.x['pred']
    neg = {'slt': 'sge', 'sge': 'slt', 'sgt': 'sle', 'sle': 'sgt', 'ult': 'uge', 'uge': 'ult', 'ugt': 'ule', 'ule': 'ugt', 'eq': 'ne', 'ne': 'eq'}
    if not sense:
        pred = neg[pred]
    return pred, c.ops[0], c.ops[1]

_BE = {}
def _by_evaluation(mod, fn, inst, kind):
    """second opinion for a store the idiom table does not know: evaluate the enclosing function path by path from the descriptor invariant
    (nsa/bufeval.py); proven iff the function is evaluated to the end, every occurrence of the store is inside the buffer (resp. keeps the
    cursor invariant) and the invariant holds at every return"""
    from . import bufeval
    key = (id(mod), fn.name)
    if key not in _BE:
        _BE[key] = bufeval.analyse_writer(mod, fn)
    r = _BE[key]
    if not r or r[0] != 'ok':
        return False, (r[1] if r else 'not a descriptor function')
    recs = [x for x in (r[1] if kind == 'store' else r[2]) if x[0] is inst]
    if not recs:
        return False, 'the store is not reached on any evaluated path'
    bad = [x for x in recs if not x[-2 if kind == 'store' else 2]]
    if bad:
        return False, bad[0][-1]
    if not all(r[3]):
        return False, 'the descriptor invariant 0 <= pos <= len does not hold at every return of %s' % fn.name
    return True, 'E4m: %d path occurrence(s) evaluated, all inside [0, len)' % len(recs) if kind == 'store' else 'E4m: cursor stays in [0, len] on %d path occurrence(s)' % len(recs)

def check_emit_bounds(mod, rep, rid):
    writers = buffer_writers(mod)
    if not writers:
        raise AnalysisBroken('%s: no function stores through emit_buf.start (anchor vanished)' % rid)
    # ---- (W) who may write the descriptor
    inits = set()
    for fn in mod.defined.values():
        for i in fn.real_insts():
            if i.op == 'store':
                f, _ = _field_of(mod, fn, i.ops[1])
                if f == F_POS and IR.is_int(i.ops[0]) and IR.ival(i.ops[0]) == 0:
                    inits.add(fn.name)
    for fn in mod.defined.values():
        for i in fn.real_insts():
            if i.op != 'store':
                continue
            f, _ = _field_of(mod, fn, i.ops[1])
            if f in (F_START, F_LEN):
                ok = fn.name in inits
                rep.instance(rid, '%s written at %s' % (f, i.where()))
                rep.oblig(rid, ok)
                if not ok:
                    rep.violate(Violation(rid, i.where(), '%s is modified outside the buffer initialiser; the bound proof assumes it is fixed' % f, site='%s/descriptor-write' % fn.name))
            elif f == F_POS:
                v = i.ops[0]
                ok = False
                why = 'the cursor is set to a value that is neither 0 nor pos+1 under the guard pos < len'
                if IR.is_int(v) and IR.ival(v) == 0:
                    ok = True
                elif isinstance(v, str) and v in fn.imap and fn.imap[v].op == 'add':
                    a = fn.imap[v]
                    cst = [o for o in a.ops if IR.is_int(o)]
                    lp = [_load_of(mod, fn, o, F_POS) for o in a.ops if isinstance(o, str)]
                    if len(cst) == 1 and IR.ival(cst[0]) == 1 and lp and lp[0] is not None:
                        for c, sense in _guards(fn, i):
                            n = _norm_cmp(fn, c, sense)
                            if n and n[0] == 'slt':
                                l1 = _load_of(mod, fn, n[1], F_POS); l2 = _load_of(mod, fn, n[2], F_LEN)
                                if l1 is not None and l2 is not None and _same_value(mod, fn, l1, lp[0]):
                                    ok = True
                        if not ok:
                            why = 'the cursor is advanced without the guard pos < len on the same value'
                if not ok:
                    ok2, why2 = _by_evaluation(mod, fn, i, 'field')
                    if ok2:
                        ok = True
                rep.instance(rid, 'cursor written at %s' % i.where())
                rep.oblig(rid, ok)
                if not ok:
                    rep.violate(Violation(rid, i.where(), why, site='%s/cursor-write' % fn.name))
    # ---- (S) stores through the buffer pointer
    for fn in mod.defined.values():
        for i in fn.real_insts():
            addr = None
            size_arg = None
            if i.op == 'store':
                addr = i.ops[1]
            elif i.op == 'call' and (i.callee or '').startswith(('llvm.memcpy', 'llvm.memset', 'llvm.memmove')):
                addr = i.ops[0]; size_arg = i.ops[2]
            elif i.op == 'call' and i.callee and not i.callee.startswith('llvm.'):
                # the raw buffer pointer handed to another function
                for o in i.ops:
                    if _start_root(mod, fn, o) is not None:
                        rep.instance(rid, 'buffer pointer passed to %s at %s' % (i.callee, i.where()))
                        rep.oblig(rid, False)
                        rep.violate(Violation(rid, i.where(), 'a pointer into the caller buffer is passed to %s; writes through it cannot be bounded' % i.callee, site='%s/buffer-escape' % fn.name))
                continue
            if addr is None or _start_root(mod, fn, addr) is None:
                continue
            ok, why = _prove_store(mod, fn, i, addr, size_arg)
            if not ok:
                ok2, why2 = _by_evaluation(mod, fn, i, 'store')
                if ok2:
                    ok, why = True, why2
                elif why2:
                    why = why + '; path evaluation: ' + str(why2)
            rep.instance(rid, 'store through the buffer at %s: %s' % (i.where(), why if ok else 'UNPROVEN'))
            rep.oblig(rid, ok)
            if not ok:
                rep.violate(Violation(rid, i.where(), 'write through the caller buffer is not provably inside buf[0..n-1]: ' + why, site='%s/buffer-store' % fn.name))
    rep.floor(rid, 5)

def _prove_store(mod, fn, inst, addr, size_arg):
    a = fn.imap.get(util.strip_ptr(fn, addr)) if isinstance(addr, str) else None
    if a is None or a.op != 'getelementptr' or len(a.ops) != 2:
        return False, 'address is not start + index'
    base, idx = a.ops
    guards = [g for g in (_norm_cmp(fn, c, s) for c, s in _guards(fn, inst)) if g]
    # S1: start[pos]
    lstart = fn.imap.get(util.strip_ptr(fn, base)) if isinstance(base, str) else None
    if size_arg is None and lstart is not None and lstart.op == 'load' and _field_of(mod, fn, lstart.ops[0])[0] == F_START:
        lp = _load_of(mod, fn, idx, F_POS)
        if lp is not None:
            for g in guards:
                if g[0] == 'slt':
                    l1 = _load_of(mod, fn, g[1], F_POS); l2 = _load_of(mod, fn, g[2], F_LEN)
                    if l1 is not None and l2 is not None and _same_value(mod, fn, l1, lp):
                        return True, 'S1 start[pos] under pos < len (0 <= pos by the cursor invariant)'
            return False, 'index is the cursor but the store is not guarded by pos < len on the same value'
        # S3: start + (len - C), memcpy/memset of n <= C bytes, len >= C
        ix = _strip_ext(fn, idx)
        if size_arg is not None and isinstance(ix, str) and ix in fn.imap and fn.imap[ix].op in ('sub', 'add'):
            s = fn.imap[ix]
            ll = _load_of(mod, fn, s.ops[0], F_LEN)
            if ll is not None and IR.is_int(s.ops[1]) and IR.is_int(size_arg):
                C = IR.ival(s.ops[1]) if s.op == 'sub' else -IR.ival(s.ops[1])
                n = IR.ival(size_arg)
                if C > 0 and 0 <= n <= C:
                    for g in guards:
                        l2 = _load_of(mod, fn, g[1], F_LEN)
                        if l2 is not None and IR.is_int(g[2]) and _same_value(mod, fn, l2, ll):
                            k = IR.ival(g[2])
                            if (g[0] == 'sge' and k >= C) or (g[0] == 'sgt' and k >= C - 1):
                                return True, 'S3 block write at start+len-%d of %d bytes under len >= %d' % (C, n, C)
                return False, 'block write at start + (len - %d) of %s bytes is not guarded by len >= %d' % (C, n, C)
        # S4: a single element at start[len - C] (C >= 1) under len >= C; S5: start[K] (constant K >= 0) under len > K
        if size_arg is None:
            C = None
            if isinstance(ix, str) and ix in fn.imap and fn.imap[ix].op in ('sub', 'add'):
                s4 = fn.imap[ix]
                ll = _load_of(mod, fn, s4.ops[0], F_LEN)
                if ll is not None and IR.is_int(s4.ops[1]):
                    C = IR.ival(s4.ops[1]) if s4.op == 'sub' else -IR.ival(s4.ops[1])
                    if C >= 1:
                        for g in guards:
                            l2 = _load_of(mod, fn, g[1], F_LEN)
                            if l2 is not None and IR.is_int(g[2]) and _same_value(mod, fn, l2, ll):
                                k = IR.ival(g[2])
                                if (g[0] == 'sge' and k >= C) or (g[0] == 'sgt' and k >= C - 1):
                                    return True, 'S4 start[len-%d] under len >= %d' % (C, C)
                        return False, 'store at start[len - %d] is not guarded by len >= %d' % (C, C)
            if IR.is_int(idx) and IR.ival(idx) >= 0:
                Kc = IR.ival(idx)
                for g in guards:
                    l2 = _load_of(mod, fn, g[1], F_LEN)
                    if l2 is not None and IR.is_int(g[2]):
                        k = IR.ival(g[2])
                        if (g[0] == 'sgt' and k >= Kc) or (g[0] == 'sge' and k >= Kc + 1):
                            return True, 'S5 start[%d] under len > %d' % (Kc, Kc)
                return False, 'store at start[%d] is not guarded by len > %d' % (Kc, Kc)
        return False, 'index is neither the guarded cursor nor a guarded offset from the end'
    # S2: *--p with p descending from start+len, guarded by p > start
    if size_arg is None and IR.is_int(idx) and IR.ival(idx) == -1 and isinstance(base, str) and base in fn.imap and fn.imap[base].op == 'phi':
        phi = fn.imap[base]
        inits, steps = [], []
        for v, pb in phi.ops:
            if v == a.id:
                steps.append(v)
            else:
                inits.append(v)
        if steps and len(inits) == 1:
            ini = fn.imap.get(util.strip_ptr(fn, inits[0])) if isinstance(inits[0], str) else None
            init_ok = False
            if ini is not None and ini.op == 'getelementptr' and len(ini.ops) == 2:
                ls = fn.imap.get(util.strip_ptr(fn, ini.ops[0])) if isinstance(ini.ops[0], str) else None
                if ls is not None and ls.op == 'load' and _field_of(mod, fn, ls.ops[0])[0] == F_START and _load_of(mod, fn, ini.ops[1], F_LEN) is not None:
                    init_ok = True
            if init_ok:
                for g in guards:
                    if g[0] == 'ugt' and g[1] == phi.id:
                        ls2 = fn.imap.get(util.strip_ptr(fn, g[2])) if isinstance(g[2], str) else None
                        if ls2 is not None and ls2.op == 'load' and _field_of(mod, fn, ls2.ops[0])[0] == F_START:
                            return True, 'S2 *--p, p descending from start+len, guarded by p > start'
                return False, 'descending pointer store is not guarded by p > start'
            return False, 'descending pointer does not start at start + len'
    return False, 'unrecognised address shape'

"""CFG utilities over nsa.ir functions: dominators, post-dominators, reachability, path queries."""
from functools import lru_cache

def _idom(nodes, entry, preds_of, succs_of):
    """Cooper-Harvey-Kennedy; nodes must all be reachable from entry (others are ignored)."""
    order = []
    seen = set()
    def dfs(n):
        stack = [(n, iter(succs_of(n)))]
        seen.add(n)
        while stack:
            node, it = stack[-1]
            adv = False
            for s in it:
                if s not in seen:
                    seen.add(s)
                    stack.append((s, iter(succs_of(s))))
                    adv = True
                    break
            if not adv:
                order.append(node)
                stack.pop()
    dfs(entry)
    rpo = list(reversed(order))
    num = {n: k for k, n in enumerate(rpo)}
    idom = {entry: entry}
    changed = True
    def inter(a, b):
        while a != b:
            while num[a] > num[b]:
                a = idom[a]
            while num[b] > num[a]:
                b = idom[b]
        return a
    while changed:
        changed = False
        for n in rpo[1:]:
            ps = [p for p in preds_of(n) if p in idom]
            if not ps:
                continue
            new = ps[0]
            for p in ps[1:]:
                new = inter(new, p)
            if idom.get(n) != new:
                idom[n] = new
                changed = True
    return idom, rpo

class FnCFG:
    def __init__(self, fn):
        self.fn = fn
        self.succ = {b.id: list(b.succ) for b in fn.blocks}
        self.pred = {b.id: list(b.preds) for b in fn.blocks}
        self.entry = fn.blocks[0].id
        self.idom, self.rpo = _idom(list(self.succ), self.entry, lambda n: self.pred[n], lambda n: self.succ[n])
        # post-dominators over a virtual exit
        self.exits = [b.id for b in fn.blocks if not b.succ]
        EXIT = '$exit'
        psucc = {n: list(self.pred[n]) for n in self.succ}   # reversed edges
        psucc[EXIT] = list(self.exits)
        ppred = {n: list(self.succ[n]) for n in self.succ}
        for e in self.exits:
            ppred[e] = ppred[e] + [EXIT]
        ppred[EXIT] = []
        self.ipdom, _ = _idom(list(psucc), EXIT, lambda n: ppred[n], lambda n: psucc[n])
    def dominates(self, a, b):
        """block a dominates block b"""
        if b not in self.idom:
            return False
        while True:
            if a == b:
                return True
            nb = self.idom[b]
            if nb == b:
                return False
            b = nb
    def postdominates(self, a, b):
        if b not in self.ipdom:
            return False
        while True:
            if a == b:
                return True
            nb = self.ipdom.get(b)
            if nb is None or nb == b:
                return False
            b = nb
    def inst_dominates(self, i1, i2):
        if i1.block is i2.block:
            return i1.idx <= i2.idx
        return self.dominates(i1.block.id, i2.block.id)
    def reachable_from(self, start_blocks, avoid=frozenset()):
        seen = set()
        work = [b for b in start_blocks if b not in avoid]
        while work:
            n = work.pop()
            if n in seen:
                continue
            seen.add(n)
            for s in self.succ[n]:
                if s not in avoid and s not in seen:
                    work.append(s)
        return seen
    def can_reach(self, a, b, avoid=frozenset()):
        return b in self.reachable_from([a], avoid)
    def back_edges(self):
        return [(a, b) for a in self.succ for b in self.succ[a] if self.dominates(b, a)]
    def loops(self):
        """natural loops: header -> set of blocks"""
        out = {}
        for a, h in self.back_edges():
            body = {h}
            work = [a]
            while work:
                n = work.pop()
                if n in body:
                    continue
                body.add(n)
                work.extend(self.pred[n])
            out.setdefault(h, set()).update(body)
        return out

_cache = {}
def cfg_of(fn):
    c = _cache.get(id(fn))
    if c is None or c.fn is not fn:
        c = FnCFG(fn)
        _cache[id(fn)] = c
    return c

# ---- instruction-level path queries -------------------------------------------------------------------

def inst_succs(inst):
    b = inst.block
    if inst.idx + 1 < len(b.insts):
        return [b.insts[inst.idx + 1]]
    return [b.fn.bmap[s].insts[0] for s in b.succ]

def paths_avoiding(fn, start_inst, is_target, is_barrier, after=True):
    """Is there a path from (just after) start_inst to an instruction satisfying is_target that does not pass
    through an instruction satisfying is_barrier?  Returns the first such target found (or None)."""
    seen = set()
    work = inst_succs(start_inst) if after else [start_inst]
    while work:
        i = work.pop()
        key = (i.block.id, i.idx)
        if key in seen:
            continue
        seen.add(key)
        if is_barrier(i):
            continue
        if is_target(i):
            return i
        work.extend(inst_succs(i))
    return None

def reaches_return_without(fn, start_inst, is_barrier):
    return paths_avoiding(fn, start_inst, lambda i: i.op == 'ret', is_barrier)

"""Entry point: python3-vt -m nsa.check <property id> [--tier quick|thorough] [--repo DIR]"""
import argparse, importlib, os, sys, time, traceback
from . import build, ir as IR
from .report import Report, AnalysisBroken

LEVELS = {'C01': 'proof', 'C07': 'proof', 'C12': 'proof', 'C17': 'proof', 'C18': 'proof', 'C19': 'proof'}

class Ctx:
    def __init__(self, repo, tier):
        self.repo = repo
        self.tier = tier
        self.facts = build.get_facts(repo)
        self._mods = {}
        self._probe = None
        import json
        self.meta = json.load(open(os.path.join(self.facts, 'meta.json')))
    def mod(self, cfg):
        if cfg not in self._mods:
            m = None
            if cfg == 'C':
                from . import mumodel
                m = mumodel.try_load(self)
            self._mods[cfg] = m if m is not None else IR.load_cfg(self.facts, cfg)
        return self._mods[cfg]
    @property
    def probe(self):
        if self._probe is None:
            self._probe = IR.load_probe(self.facts)
        return self._probe

def thorough_extra(pid, repo, rc):
    """thorough tier: after the property was decided on the tree itself, measure the check on the recorded breaking and benign variants of
    the CURRENT tree (nsa/selftest.py) and add the result to the evidence file.  The verdict about /repo is not changed by it."""
    import json
    from . import selftest
    res = selftest.run(pid, repo)
    evdir = os.environ.get('NSA_EVIDENCE_DIR') or os.path.join(os.path.dirname(os.path.dirname(os.path.abspath(__file__))), 'evidence')
    path = os.path.join(evdir, pid + '.json')
    try:
        ev = json.load(open(path))
        ev['coverage']['selftest'] = res
        ev['coverage']['explanation'] += (' Thorough tier: the check was additionally run on %d breaking and %d behaviour-preserving variants of the current tree '
                                          '(scratch copies, IR only): %d/%d breaking variants reported, %d/%d benign variants silent.'
                                          % (res['breaking_applied'], res['benign_applied'], res['breaking_detected'], res['breaking_applied'],
                                             res['benign_silent'], res['benign_applied']))
        json.dump(ev, open(path, 'w'), indent=1, sort_keys=True)
    except Exception as e:
        print('%s selftest: could not extend the evidence file: %s' % (pid, e))
    for r in res['breaking_missed']:
        print('%s SELFTEST-MISS %s rc=%s %s' % (pid, r['patch'], r['rc'], r['first']))
    for r in res['benign_alarms']:
        print('%s SELFTEST-FALSE-ALARM %s rc=%s %s' % (pid, r['patch'], r['rc'], r['first']))
    print('%s selftest: %d/%d breaking variants detected, %d/%d benign variants silent, %d skipped (do not apply to the current tree)'
          % (pid, res['breaking_detected'], res['breaking_applied'], res['benign_silent'], res['benign_applied'], len(res['skipped_do_not_apply'])))
    return rc

def main(argv=None):
    ap = argparse.ArgumentParser()
    ap.add_argument('pid')
    ap.add_argument('--tier', default=os.environ.get('VERIF_TIER', 'quick'))
    ap.add_argument('--repo', default=os.environ.get('NSA_REPO', '/repo'))
    a = ap.parse_args(argv)
    tier = a.tier if a.tier in ('quick', 'thorough') else 'quick'
    pid = a.pid
    # safety net: an interpretation that does not converge on some unforeseen loop shape must end as "analysis broken", not hang
    import signal
    def _too_long(signum, frame):
        raise AnalysisBroken('the analysis did not finish within its time budget (an interpretation that does not converge?)')
    try:
        signal.signal(signal.SIGALRM, _too_long)
        signal.alarm(int(os.environ.get('NSA_TIME_BUDGET', '1800' if tier == 'quick' else '7200')))
    except (ValueError, AttributeError):
        pass
    try:
        ctx = Ctx(a.repo, tier)
        rulemod = importlib.import_module('nsa.rules.' + pid)
        rep = Report(pid, tier, LEVELS.get(pid, 'other'))
        rep.units = ctx.meta['units'].get('C', [])
        rc = rulemod.run(ctx, rep)
        if tier == 'thorough' and rc == 0 and not os.environ.get('NSA_NO_SELFTEST'):
            # the verdict about the tree is in; the corpus measurement that follows only extends the evidence file (each of its runs has its own
            # time budget) and must not be able to change the verdict
            try:
                signal.alarm(0)
            except Exception:
                pass
            try:
                rc = thorough_extra(pid, a.repo, rc)
            except Exception as e:
                print('%s selftest: not completed (%s: %s); the verdict above stands' % (pid, type(e).__name__, e))
                rc = 0
        return rc
    except AnalysisBroken as e:
        print('ANALYSIS-BROKEN property=%s %s' % (pid, e))
        return 2
    except build.BuildError as e:
        print('ANALYSIS-BROKEN property=%s the tree does not compile to IR: %s' % (pid, str(e)[:2000]))
        return 2
    except Exception:
        traceback.print_exc()
        print('ANALYSIS-BROKEN property=%s internal error in the checker' % pid)
        return 2

if __name__ == '__main__':
    sys.exit(main())

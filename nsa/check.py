"""Entry point: python3-vt -m nsa.check <property id> [--tier quick|thorough] [--repo DIR]"""
import argparse, importlib, os, sys, time, traceback
from . import build, ir as IR
from .report import Report, AnalysisBroken

LEVELS = {'C01': 'proof', 'C07': 'proof', 'C12': 'proof', 'C17': 'proof', 'C18': 'proof', 'C19': 'proof'}

class Ctx:
    def __init__(self, repo, tier):
        self.repo = repo
        self.tier = tier
        self.facts = build.get_facts(repo)
        self._mods = {}
        self._probe = None
        import json
        self.meta = json.load(open(os.path.join(self.facts, 'meta.json')))
    def mod(self, cfg):
        if cfg not in self._mods:
            m = None
            if cfg == 'C':
                from . import mumodel
                m = mumodel.try_load(self)
            self._mods[cfg] = m if m is not None else IR.load_cfg(self.facts, cfg)
        return self._mods[cfg]
    @property
    def probe(self):
        if self._probe is None:
            self._probe = IR.load_probe(self.facts)
        return self._probe

def main(argv=None):
    ap = argparse.ArgumentParser()
    ap.add_argument('pid')
    ap.add_argument('--tier', default=os.environ.get('VERIF_TIER', 'quick'))
    ap.add_argument('--repo', default=os.environ.get('NSA_REPO', '/repo'))
    a = ap.parse_args(argv)
    tier = a.tier if a.tier in ('quick', 'thorough') else 'quick'
    pid = a.pid
    try:
        ctx = Ctx(a.repo, tier)
        rulemod = importlib.import_module('nsa.rules.' + pid)
        rep = Report(pid, tier, LEVELS.get(pid, 'other'))
        rep.units = ctx.meta['units'].get('C', [])
        rc = rulemod.run(ctx, rep)
        return rc
    except AnalysisBroken as e:
        print('ANALYSIS-BROKEN property=%s %s' % (pid, e))
        return 2
    except build.BuildError as e:
        print('ANALYSIS-BROKEN property=%s the tree does not compile to IR: %s' % (pid, str(e)[:2000]))
        return 2
    except Exception:
        traceback.print_exc()
        print('ANALYSIS-BROKEN property=%s internal error in the checker' % pid)
        return 2

if __name__ == '__main__':
    sys.exit(main())

"""Interpretation of the futex semaphore (platform/linux/src/nsync_semaphore_futex.c) shared by C12 and C15."""
from .wordeng import SmallWordEngine
from .symex import Ptr, TOP, is_expr, eval_tree, Record, _sx
from . import util, ir as IR
from .report import AnalysisBroken

FIELD = 'futex.i'
U64 = (1 << 64) - 1
# representatives of the deadline: both ends of the time_t range and their neighbours (arithmetic on the seconds must not wrap there),
# the sign boundary, and for the nanoseconds both ends of [0, 1e9) plus values around every unit a rounding step could use
SEC_REPS = frozenset(x & U64 for x in (-(1 << 63), -(1 << 63) + 1, -(1 << 62), -2, -1, 0, 1, 1 << 62, (1 << 63) - 2, (1 << 63) - 1))
NSEC_REPS = frozenset((0, 1, 999, 1000, 999999, 1000000, 500000000, 999000000, 999999000, 999999001, 999999998, 999999999))

class FutexEngine(SmallWordEngine):
    def __init__(self, mod, K):
        self.K = K
        files = set()
        for f in mod.defined.values():
            for i in f.real_insts():
                if i.op in ('load', 'store', 'cmpxchg') and i.x.get('ord', 'na') != 'na':
                    pass
        SmallWordEngine.__init__(self, mod, 'futex', (0, 1, 2, 3), field=FIELD, files=('nsync_semaphore_futex.c', 'time_rep.c'))
        self.sys = []
    def word_transition(self, st, rec):
        if rec.how == 'cas' and rec.pairs:
            if all(n == e - 1 and e >= 1 for e, n in rec.pairs):
                st.ghost[('flag', 'dec')] = 1
            if all(n == e + 1 for e, n in rec.pairs):
                st.ghost[('flag', 'inc')] = 1
                st.ghost[('inc_old',)] = rec.expected if is_expr(rec.expected) else ('const', rec.expected)
    def on_call(self, st, inst, callee, args):
        if callee == 'syscall' and len(args) >= 5:
            op = args[2]
            cmd = (op & ~self.K['FUTEX_CLOCK_REALTIME'] & 127) if isinstance(op, int) else None
            kind = 'wait' if cmd in (self.K['FUTEX_WAIT'], self.K['FUTEX_WAIT_BITSET']) else ('wake' if cmd == self.K['FUTEX_WAKE'] else 'other')
            val = args[3]
            vals = None
            if isinstance(val, int):
                vals = {val}
            elif is_expr(val):
                vals = set(eval_tree(val[2], d) for d in st.S.get(val[1], ()))
            ts = args[4]
            tsinfo = None
            if isinstance(ts, Ptr):
                cells = {k.path: v for k, v in st.mem.items() if k.base == ts.base}
                def ev(v):
                    if isinstance(v, int):
                        return {v}
                    if is_expr(v):
                        return set(eval_tree(v[2], d) for d in st.S.get(v[1], ()))
                    return None
                tsinfo = {p: ev(v) for p, v in cells.items()}
            elif ts == 0:
                tsinfo = 'NULL'
            absolute = isinstance(op, int) and cmd == self.K['FUTEX_WAIT_BITSET']
            dl = {'sec': st.S.get('deadline.sec'), 'nsec': st.S.get('deadline.nsec')}
            self.record(Record('futex', inst, st, op=op, fkind=kind, vals=vals, ts=tsinfo, absolute=absolute, entry=self.entry_name, deadline=dl),
                        ('futex', inst.id, st.stack(), repr(vals), repr(tsinfo), tuple(sorted(st.ghost.items(), key=repr))))
            if kind == 'wake':
                st.ghost[('flag', 'woke')] = 1
            # the futex system call reads its timeout argument and writes nothing through it: the caller's timespec survives the call (a
            # loop may compute an absolute timeout once, before its first attempt)
            return [(st, TOP)]
        return None

def sem_functions(mod):
    """role-based: the functions of the semaphore interface (sem.h) as defined in the futex file"""
    out = {}
    for name in ('nsync_mu_semaphore_init', 'nsync_mu_semaphore_p', 'nsync_mu_semaphore_p_with_deadline', 'nsync_mu_semaphore_v'):
        f = mod.func(name)
        if f is None or f.decl:
            raise AnalysisBroken('semaphore function %s not found' % name)
        out[name] = f
    return out

def no_deadline_const(mod):
    """(seconds, nanoseconds) of the constant nsync_time_no_deadline as the library defines it, or None"""
    for n, g in mod.globals.items():
        if (g.get('srcname') == 'nsync_time_no_deadline' or n == 'nsync_time_no_deadline') and g.get('init', {}).get('k') == 'agg':
            v = tuple(e.get('v') for e in g['init']['elts'])
            if len(v) == 2 and all(isinstance(x, int) for x in v):
                return (v[0] & U64, v[1] & U64)
    return None

def analyse(ctx, cfg='C'):
    mod = ctx.mod(cfg)
    K = ctx.probe
    S = Ptr('arg:s', ())
    res = {}
    fns = sem_functions(mod)
    for name, fn in fns.items():
        eng = FutexEngine(mod, K)
        args = [S]
        syms = {}
        if name.endswith('_with_deadline'):
            if len(fn.args) != 3:
                raise AnalysisBroken('%s: expected the deadline to be passed as (seconds, nanoseconds)' % name)
            args += [('e', 'deadline.sec', ('s',)), ('e', 'deadline.nsec', ('s',))]
            nd = no_deadline_const(mod)
            syms = {'deadline.sec': SEC_REPS | (frozenset((nd[0],)) if nd else frozenset()),
                    'deadline.nsec': NSEC_REPS | (frozenset((nd[1],)) if nd else frozenset())}
        exits = eng.run(name, args, nn={S}, syms=syms)
        res[name] = (eng, exits)
    return res

"""nsa: static analyses over clang's LLVM IR of google/nsync (never executes nsync code)."""
